package gosym

// SMT term DAG (bit-vectors, booleans, uninterpreted functions) with
// hash-consing, constant folding and an SMT-LIB2 printer.

import (
	"fmt"
	"strings"
)

type Op uint8

const (
	OpConst Op = iota // bit-vector literal (W>0) or bool literal (W==0, K=0/1)
	OpVar
	OpNot // bool
	OpAnd
	OpOr
	OpIte
	OpEq
	OpBvAdd
	OpBvSub
	OpBvMul
	OpBvUdiv
	OpBvUrem
	OpBvSdiv
	OpBvSrem
	OpBvAnd
	OpBvOr
	OpBvXor
	OpBvNot
	OpBvNeg
	OpBvShl
	OpBvLshr
	OpBvAshr
	OpBvUlt
	OpBvUle
	OpBvSlt
	OpBvSle
	OpConcat
	OpExtract // K=hi, K2=lo
	OpZext    // K=extra bits
	OpSext    // K=extra bits
	OpUF      // Name = function symbol
	OpTable   // constant lookup table Tab indexed by A[0]; out-of-range index yields Tab[len-1]
)

var opNames = map[Op]string{
	OpNot: "not", OpAnd: "and", OpOr: "or", OpIte: "ite", OpEq: "=",
	OpBvAdd: "bvadd", OpBvSub: "bvsub", OpBvMul: "bvmul", OpBvUdiv: "bvudiv", OpBvUrem: "bvurem",
	OpBvSdiv: "bvsdiv", OpBvSrem: "bvsrem", OpBvAnd: "bvand", OpBvOr: "bvor", OpBvXor: "bvxor",
	OpBvNot: "bvnot", OpBvNeg: "bvneg", OpBvShl: "bvshl", OpBvLshr: "bvlshr", OpBvAshr: "bvashr",
	OpBvUlt: "bvult", OpBvUle: "bvule", OpBvSlt: "bvslt", OpBvSle: "bvsle", OpConcat: "concat",
}

type Term struct {
	Op   Op
	W    int // bit width; 0 = Bool
	A    []*Term
	K    uint64
	K2   uint64
	Name string
	Tab  []uint64
	id   int
}

func (t *Term) IsConst() bool { return t.Op == OpConst }
func (t *Term) IsBool() bool  { return t.W == 0 }

// TB is a term builder; one per explored path (not shared between goroutines).
type TB struct {
	tab    map[string]*Term
	nextID int
	vars   []*Term          // declared variables, in creation order
	ufs    map[string]*Term // one representative application per UF symbol (for declaration)
	ufList []string
	tt, ff *Term
}

func NewTB() *TB {
	tb := &TB{tab: make(map[string]*Term), ufs: make(map[string]*Term)}
	tb.tt = tb.mk(&Term{Op: OpConst, W: 0, K: 1})
	tb.ff = tb.mk(&Term{Op: OpConst, W: 0, K: 0})
	return tb
}

func mask(w int) uint64 {
	if w >= 64 {
		return ^uint64(0)
	}
	return (uint64(1) << uint(w)) - 1
}

func (tb *TB) key(t *Term) string {
	var sb strings.Builder
	fmt.Fprintf(&sb, "%d/%d/%d/%d/%s", t.Op, t.W, t.K, t.K2, t.Name)
	for _, a := range t.A {
		fmt.Fprintf(&sb, ",%d", a.id)
	}
	return sb.String()
}

func (tb *TB) mk(t *Term) *Term {
	k := tb.key(t)
	if e, ok := tb.tab[k]; ok {
		return e
	}
	t.id = tb.nextID
	tb.nextID++
	tb.tab[k] = t
	return t
}

func (tb *TB) True() *Term  { return tb.tt }
func (tb *TB) False() *Term { return tb.ff }
func (tb *TB) Bool(b bool) *Term {
	if b {
		return tb.tt
	}
	return tb.ff
}

func (tb *TB) Const(v uint64, w int) *Term {
	if w == 0 {
		return tb.Bool(v != 0)
	}
	return tb.mk(&Term{Op: OpConst, W: w, K: v & mask(w)})
}

// Var creates a fresh variable. Names must be unique per path.
func (tb *TB) Var(name string, w int) *Term {
	t := tb.mk(&Term{Op: OpVar, W: w, Name: name})
	if t.id == tb.nextID-1 {
		tb.vars = append(tb.vars, t)
	}
	return t
}

func (tb *TB) UF(name string, w int, args ...*Term) *Term {
	sym := name
	t := tb.mk(&Term{Op: OpUF, W: w, Name: sym, A: args})
	if _, ok := tb.ufs[sym]; !ok {
		tb.ufs[sym] = t
		tb.ufList = append(tb.ufList, sym)
	}
	return t
}

func sext64(v uint64, w int) int64 {
	if w >= 64 {
		return int64(v)
	}
	sh := uint(64 - w)
	return int64(v<<sh) >> sh
}

func (tb *TB) Not(a *Term) *Term {
	if a.IsConst() {
		return tb.Bool(a.K == 0)
	}
	if a.Op == OpNot {
		return a.A[0]
	}
	if a.Op == OpTable {
		return tb.tableMap(a, 0, func(k uint64) uint64 { return 1 - k&1 })
	}
	return tb.mk(&Term{Op: OpNot, A: []*Term{a}})
}

func (tb *TB) And(a, b *Term) *Term {
	if a.IsConst() {
		if a.K == 0 {
			return tb.ff
		}
		return b
	}
	if b.IsConst() {
		if b.K == 0 {
			return tb.ff
		}
		return a
	}
	if a == b {
		return a
	}
	return tb.mk(&Term{Op: OpAnd, A: []*Term{a, b}})
}

func (tb *TB) Or(a, b *Term) *Term {
	if a.IsConst() {
		if a.K != 0 {
			return tb.tt
		}
		return b
	}
	if b.IsConst() {
		if b.K != 0 {
			return tb.tt
		}
		return a
	}
	if a == b {
		return a
	}
	return tb.mk(&Term{Op: OpOr, A: []*Term{a, b}})
}

func (tb *TB) Ite(c, a, b *Term) *Term {
	if c.IsConst() {
		if c.K != 0 {
			return a
		}
		return b
	}
	if a == b {
		return a
	}
	if a.W == 0 {
		// boolean ite
		if a.IsConst() && b.IsConst() {
			if a.K != 0 {
				return c
			}
			return tb.Not(c)
		}
		if a.IsConst() {
			if a.K != 0 {
				return tb.Or(c, b)
			}
			return tb.And(tb.Not(c), b)
		}
		if b.IsConst() {
			if b.K != 0 {
				return tb.Or(tb.Not(c), a)
			}
			return tb.And(c, a)
		}
	}
	return tb.mk(&Term{Op: OpIte, W: a.W, A: []*Term{c, a, b}})
}

func (tb *TB) Eq(a, b *Term) *Term {
	if a.W != b.W {
		panic(fmt.Sprintf("Eq width mismatch %d vs %d", a.W, b.W))
	}
	if a == b {
		return tb.tt
	}
	if a.IsConst() && b.IsConst() {
		return tb.Bool(a.K == b.K)
	}
	if a.W == 0 {
		if a.IsConst() {
			if a.K != 0 {
				return b
			}
			return tb.Not(b)
		}
		if b.IsConst() {
			if b.K != 0 {
				return a
			}
			return tb.Not(a)
		}
	}
	if a.W > 0 {
		if b.IsConst() && a.Op == OpTable {
			bk := b.K
			return tb.tableMap(a, 0, func(k uint64) uint64 {
				if k == bk {
					return 1
				}
				return 0
			})
		}
		if a.IsConst() && b.Op == OpTable {
			return tb.Eq(b, a)
		}
		if a.Op == OpTable && b.Op == OpTable && a.Name == b.Name && a.A[0].W == b.A[0].W {
			// same table, injective on its domain: compare the indices
			seen := make(map[uint64]bool, len(a.Tab))
			inj := true
			for _, v := range a.Tab {
				if seen[v] {
					inj = false
					break
				}
				seen[v] = true
			}
			if inj {
				return tb.Eq(a.A[0], b.A[0])
			}
		}
		if b.IsConst() && isLeafTree(a) {
			bk := b.K
			if r, ok := tb.leafMap(a, 0, func(k uint64) uint64 {
				if k == bk {
					return 1
				}
				return 0
			}); ok {
				return r
			}
		}
		if a.IsConst() && isLeafTree(b) {
			return tb.Eq(b, a)
		}
	}
	if a.id > b.id {
		a, b = b, a
	}
	return tb.mk(&Term{Op: OpEq, A: []*Term{a, b}})
}

// Bin builds a bit-vector binary operation (both operands same width).
func (tb *TB) Bin(op Op, a, b *Term) *Term {
	if a.W != b.W || a.W == 0 {
		panic(fmt.Sprintf("Bin %v width mismatch %d vs %d", opNames[op], a.W, b.W))
	}
	w := a.W
	if a.IsConst() && b.IsConst() {
		x, y, m := a.K, b.K, mask(w)
		switch op {
		case OpBvAdd:
			return tb.Const(x+y, w)
		case OpBvSub:
			return tb.Const(x-y, w)
		case OpBvMul:
			return tb.Const(x*y, w)
		case OpBvAnd:
			return tb.Const(x&y, w)
		case OpBvOr:
			return tb.Const(x|y, w)
		case OpBvXor:
			return tb.Const(x^y, w)
		case OpBvUdiv:
			if y == 0 {
				return tb.Const(m, w)
			}
			return tb.Const(x/y, w)
		case OpBvUrem:
			if y == 0 {
				return tb.Const(x, w)
			}
			return tb.Const(x%y, w)
		case OpBvSdiv:
			if y != 0 {
				sx, sy := sext64(x, w), sext64(y, w)
				if !(sy == -1 && sx == sext64(uint64(1)<<uint(w-1), w)) {
					return tb.Const(uint64(sx/sy), w)
				}
				return tb.Const(x, w)
			}
		case OpBvSrem:
			if y != 0 {
				sx, sy := sext64(x, w), sext64(y, w)
				if sy == -1 {
					return tb.Const(0, w)
				}
				return tb.Const(uint64(sx%sy), w)
			}
		case OpBvShl:
			if y >= uint64(w) {
				return tb.Const(0, w)
			}
			return tb.Const(x<<y, w)
		case OpBvLshr:
			if y >= uint64(w) {
				return tb.Const(0, w)
			}
			return tb.Const(x>>y, w)
		case OpBvAshr:
			sx := sext64(x, w)
			if y >= uint64(w) {
				y = uint64(w - 1)
			}
			return tb.Const(uint64(sx>>y), w)
		}
	}
	noDiv := op != OpBvUdiv && op != OpBvUrem && op != OpBvSdiv && op != OpBvSrem
	if b.IsConst() && a.Op == OpTable && noDiv {
		bk := b.K
		return tb.tableMap(a, w, func(k uint64) uint64 { return tb.Bin(op, tb.Const(k, w), tb.Const(bk, w)).K })
	}
	if a.IsConst() && b.Op == OpTable && noDiv {
		ak := a.K
		return tb.tableMap(b, w, func(k uint64) uint64 { return tb.Bin(op, tb.Const(ak, w), tb.Const(k, w)).K })
	}
	if b.IsConst() && isLeafTree(a) && op != OpBvUdiv && op != OpBvUrem && op != OpBvSdiv && op != OpBvSrem {
		bk := b.K
		if r, ok := tb.leafMap(a, w, func(k uint64) uint64 { return tb.Bin(op, tb.Const(k, w), tb.Const(bk, w)).K }); ok {
			return r
		}
	}
	if a.IsConst() && isLeafTree(b) && op != OpBvUdiv && op != OpBvUrem && op != OpBvSdiv && op != OpBvSrem {
		ak := a.K
		if r, ok := tb.leafMap(b, w, func(k uint64) uint64 { return tb.Bin(op, tb.Const(ak, w), tb.Const(k, w)).K }); ok {
			return r
		}
	}
	// cheap identities
	switch op {
	case OpBvAdd, OpBvOr, OpBvXor:
		if a.IsConst() && a.K == 0 {
			return b
		}
		if b.IsConst() && b.K == 0 {
			return a
		}
	case OpBvSub, OpBvShl, OpBvLshr, OpBvAshr:
		if b.IsConst() && b.K == 0 {
			return a
		}
	case OpBvAnd:
		if (a.IsConst() && a.K == 0) || (b.IsConst() && b.K == 0) {
			return tb.Const(0, w)
		}
		if a.IsConst() && a.K == mask(w) {
			return b
		}
		if b.IsConst() && b.K == mask(w) {
			return a
		}
		if a == b {
			return a
		}
	case OpBvMul:
		if a.IsConst() && a.K == 1 {
			return b
		}
		if b.IsConst() && b.K == 1 {
			return a
		}
	}
	if op == OpBvOr && a == b {
		return a
	}
	return tb.mk(&Term{Op: op, W: w, A: []*Term{a, b}})
}

// Cmp builds a bit-vector comparison yielding Bool.
func (tb *TB) Cmp(op Op, a, b *Term) *Term {
	if a.W != b.W || a.W == 0 {
		panic(fmt.Sprintf("Cmp %v width mismatch %d vs %d", opNames[op], a.W, b.W))
	}
	if a.IsConst() && b.IsConst() {
		w := a.W
		switch op {
		case OpBvUlt:
			return tb.Bool(a.K < b.K)
		case OpBvUle:
			return tb.Bool(a.K <= b.K)
		case OpBvSlt:
			return tb.Bool(sext64(a.K, w) < sext64(b.K, w))
		case OpBvSle:
			return tb.Bool(sext64(a.K, w) <= sext64(b.K, w))
		}
	}
	if a == b {
		return tb.Bool(op == OpBvUle || op == OpBvSle)
	}
	if b.IsConst() && a.Op == OpTable {
		bk, w := b.K, a.W
		return tb.tableMap(a, 0, func(k uint64) uint64 { return tb.Cmp(op, tb.Const(k, w), tb.Const(bk, w)).K })
	}
	if a.IsConst() && b.Op == OpTable {
		ak, w := a.K, b.W
		return tb.tableMap(b, 0, func(k uint64) uint64 { return tb.Cmp(op, tb.Const(ak, w), tb.Const(k, w)).K })
	}
	if b.IsConst() && isLeafTree(a) {
		bk, w := b.K, a.W
		if r, ok := tb.leafMap(a, 0, func(k uint64) uint64 { return tb.Cmp(op, tb.Const(k, w), tb.Const(bk, w)).K }); ok {
			return r
		}
	}
	if a.IsConst() && isLeafTree(b) {
		ak, w := a.K, b.W
		if r, ok := tb.leafMap(b, 0, func(k uint64) uint64 { return tb.Cmp(op, tb.Const(ak, w), tb.Const(k, w)).K }); ok {
			return r
		}
	}
	return tb.mk(&Term{Op: op, W: 0, A: []*Term{a, b}})
}

func (tb *TB) Un(op Op, a *Term) *Term {
	if a.IsConst() {
		switch op {
		case OpBvNot:
			return tb.Const(^a.K, a.W)
		case OpBvNeg:
			return tb.Const(-a.K, a.W)
		}
	}
	return tb.mk(&Term{Op: op, W: a.W, A: []*Term{a}})
}

// Table builds the lookup Tab[x] (element width w). The caller guarantees x < len(tab) on this path
// (bounds check already decided), so entries beyond the domain of x are irrelevant.
func (tb *TB) Table(tab []uint64, w int, x *Term) *Term {
	if x.IsConst() {
		k := x.K
		if k >= uint64(len(tab)) {
			k = uint64(len(tab) - 1)
		}
		return tb.Const(tab[k], w)
	}
	// compose with an inner table
	if x.Op == OpTable {
		inner := x.Tab
		nt := make([]uint64, len(inner))
		for k, v := range inner {
			if v >= uint64(len(tab)) {
				v = uint64(len(tab) - 1)
			}
			nt[k] = tab[v]
		}
		return tb.Table(nt, w, x.A[0])
	}
	// domain of x
	dom := uint64(len(tab))
	if x.W <= 16 && (uint64(1)<<uint(x.W)) < dom {
		dom = uint64(1) << uint(x.W)
	}
	if x.Op == OpBvAnd {
		for _, a := range x.A {
			if a.IsConst() && a.K+1 < dom && a.K&(a.K+1) == 0 {
				dom = a.K + 1
			}
		}
	}
	if x.Op == OpExtract && (uint64(1)<<uint(x.W)) < dom {
		dom = uint64(1) << uint(x.W)
	}
	ident, constant := true, true
	for k := uint64(0); k < dom; k++ {
		if tab[k]&mask64(w) != k&mask64(w) || (w > 0 && w < 64 && k > mask(w)) {
			ident = false
		}
		if tab[k] != tab[0] {
			constant = false
		}
	}
	if constant {
		return tb.Const(tab[0], w)
	}
	if ident && w > 0 {
		return tb.Zext(x, w) // Zext truncates when narrower
	}
	tt := tab[:dom]
	var sb strings.Builder
	for _, v := range tt {
		fmt.Fprintf(&sb, "%x.", v)
	}
	return tb.mk(&Term{Op: OpTable, W: w, A: []*Term{x}, Name: sb.String(), Tab: append([]uint64{}, tt...)})
}

// tableMap applies f to every entry of table term t.
func (tb *TB) tableMap(t *Term, w int, f func(k uint64) uint64) *Term {
	nt := make([]uint64, len(t.Tab))
	for k, v := range t.Tab {
		nt[k] = f(v) & mask64(w)
	}
	return tb.Table(nt, w, t.A[0])
}

// leafMap applies f to every constant leaf of an ite tree t (whose leaves are all constants),
// producing a tree of width w. ok=false if t is not such a tree (or is too large).
func (tb *TB) leafMap(t *Term, w int, f func(k uint64) uint64) (*Term, bool) {
	memo := map[int]*Term{}
	budget := 4096
	var rec func(x *Term) (*Term, bool)
	rec = func(x *Term) (*Term, bool) {
		if r, ok := memo[x.id]; ok {
			return r, r != nil
		}
		budget--
		if budget < 0 {
			return nil, false
		}
		var r *Term
		switch x.Op {
		case OpConst:
			r = tb.Const(f(x.K), w)
		case OpIte:
			a, ok1 := rec(x.A[1])
			if !ok1 {
				memo[x.id] = nil
				return nil, false
			}
			b, ok2 := rec(x.A[2])
			if !ok2 {
				memo[x.id] = nil
				return nil, false
			}
			r = tb.Ite(x.A[0], a, b)
		default:
			memo[x.id] = nil
			return nil, false
		}
		memo[x.id] = r
		return r, true
	}
	return rec(t)
}

// isLeafTree reports (cheaply) whether t looks like an ite tree with a constant somewhere at the top.
func isLeafTree(t *Term) bool {
	return t.Op == OpIte && t.W > 0 && (t.A[1].IsConst() || t.A[2].IsConst())
}

func (tb *TB) Extract(a *Term, hi, lo int) *Term {
	w := hi - lo + 1
	if lo == 0 && w == a.W {
		return a
	}
	if a.IsConst() {
		return tb.Const(a.K>>uint(lo), w)
	}
	if (a.Op == OpZext || a.Op == OpSext) && hi < a.A[0].W {
		return tb.Extract(a.A[0], hi, lo)
	}
	if a.Op == OpTable {
		return tb.tableMap(a, w, func(k uint64) uint64 { return k >> uint(lo) })
	}
	if isLeafTree(a) {
		if r, ok := tb.leafMap(a, w, func(k uint64) uint64 { return k >> uint(lo) }); ok {
			return r
		}
	}
	return tb.mk(&Term{Op: OpExtract, W: w, K: uint64(hi), K2: uint64(lo), A: []*Term{a}})
}

func (tb *TB) Zext(a *Term, to int) *Term {
	if to == a.W {
		return a
	}
	if to < a.W {
		return tb.Extract(a, to-1, 0)
	}
	if a.IsConst() {
		return tb.Const(a.K, to)
	}
	if a.Op == OpTable {
		return tb.tableMap(a, to, func(k uint64) uint64 { return k })
	}
	if isLeafTree(a) {
		if r, ok := tb.leafMap(a, to, func(k uint64) uint64 { return k }); ok {
			return r
		}
	}
	return tb.mk(&Term{Op: OpZext, W: to, K: uint64(to - a.W), A: []*Term{a}})
}

func (tb *TB) Sext(a *Term, to int) *Term {
	if to == a.W {
		return a
	}
	if to < a.W {
		return tb.Extract(a, to-1, 0)
	}
	if a.IsConst() {
		return tb.Const(uint64(sext64(a.K, a.W)), to)
	}
	if a.Op == OpTable {
		aw := a.W
		return tb.tableMap(a, to, func(k uint64) uint64 { return uint64(sext64(k, aw)) })
	}
	if isLeafTree(a) {
		aw := a.W
		if r, ok := tb.leafMap(a, to, func(k uint64) uint64 { return uint64(sext64(k, aw)) }); ok {
			return r
		}
	}
	return tb.mk(&Term{Op: OpSext, W: to, K: uint64(to - a.W), A: []*Term{a}})
}

func (tb *TB) Concat(hi, lo *Term) *Term {
	if hi.IsConst() && lo.IsConst() && hi.W+lo.W <= 64 {
		return tb.Const(hi.K<<uint(lo.W)|lo.K, hi.W+lo.W)
	}
	return tb.mk(&Term{Op: OpConcat, W: hi.W + lo.W, A: []*Term{hi, lo}})
}

// ---------------------------------------------------------------------------
// SMT-LIB printing

func sortOf(w int) string {
	if w == 0 {
		return "Bool"
	}
	return fmt.Sprintf("(_ BitVec %d)", w)
}

func constLit(t *Term) string {
	if t.W == 0 {
		if t.K != 0 {
			return "true"
		}
		return "false"
	}
	if t.W%4 == 0 {
		return fmt.Sprintf("#x%0*x", t.W/4, t.K)
	}
	return fmt.Sprintf("#b%0*b", t.W, t.K)
}

func smtName(s string) string {
	// quote symbol
	return "|" + strings.NewReplacer("|", "_", "\\", "_").Replace(s) + "|"
}

// ref returns how term t is referenced inside other terms.
func ref(t *Term) string {
	switch t.Op {
	case OpConst:
		return constLit(t)
	case OpVar:
		return smtName(t.Name)
	}
	return fmt.Sprintf("t%d", t.id)
}

func body(t *Term) string {
	var sb strings.Builder
	switch t.Op {
	case OpExtract:
		fmt.Fprintf(&sb, "((_ extract %d %d) %s)", t.K, t.K2, ref(t.A[0]))
	case OpZext:
		fmt.Fprintf(&sb, "((_ zero_extend %d) %s)", t.K, ref(t.A[0]))
	case OpSext:
		fmt.Fprintf(&sb, "((_ sign_extend %d) %s)", t.K, ref(t.A[0]))
	case OpTable:
		x := ref(t.A[0])
		xw := t.A[0].W
		lit := func(v uint64) string { return constLit(&Term{Op: OpConst, W: t.W, K: v}) }
		n := len(t.Tab)
		// group runs of equal values to keep the chain short: compare with the default (last) value
		def := t.Tab[n-1]
		closing := 0
		for k := 0; k < n-1; k++ {
			if t.Tab[k] == def {
				continue
			}
			fmt.Fprintf(&sb, "(ite (= %s %s) %s ", x, constLit(&Term{Op: OpConst, W: xw, K: uint64(k)}), lit(t.Tab[k]))
			closing++
		}
		sb.WriteString(lit(def))
		sb.WriteString(strings.Repeat(")", closing))
	case OpUF:
		if len(t.A) == 0 {
			sb.WriteString(smtName(t.Name))
			break
		}
		sb.WriteString("(" + smtName(t.Name))
		for _, a := range t.A {
			sb.WriteString(" " + ref(a))
		}
		sb.WriteString(")")
	default:
		sb.WriteString("(" + opNames[t.Op])
		for _, a := range t.A {
			sb.WriteString(" " + ref(a))
		}
		sb.WriteString(")")
	}
	return sb.String()
}

// Emitter tracks which declarations/definitions have been sent to one solver scope.
type Emitter struct {
	done   map[int]bool
	ufDone map[string]bool
	Out    strings.Builder
}

func NewEmitter() *Emitter {
	return &Emitter{done: make(map[int]bool), ufDone: make(map[string]bool)}
}

// Define appends to e.Out every declaration/definition needed for t.
func (e *Emitter) Define(t *Term) {
	if e.done[t.id] {
		return
	}
	// iterative post-order to avoid deep recursion
	type fr struct {
		t *Term
		i int
	}
	stack := []fr{{t, 0}}
	for len(stack) > 0 {
		top := &stack[len(stack)-1]
		if e.done[top.t.id] {
			stack = stack[:len(stack)-1]
			continue
		}
		if top.i < len(top.t.A) {
			c := top.t.A[top.i]
			top.i++
			if !e.done[c.id] {
				stack = append(stack, fr{c, 0})
			}
			continue
		}
		n := top.t
		stack = stack[:len(stack)-1]
		e.done[n.id] = true
		switch n.Op {
		case OpConst:
		case OpVar:
			fmt.Fprintf(&e.Out, "(declare-fun %s () %s)\n", smtName(n.Name), sortOf(n.W))
		default:
			if n.Op == OpUF && !e.ufDone[n.Name] {
				e.ufDone[n.Name] = true
				fmt.Fprintf(&e.Out, "(declare-fun %s (", smtName(n.Name))
				for i, a := range n.A {
					if i > 0 {
						e.Out.WriteString(" ")
					}
					e.Out.WriteString(sortOf(a.W))
				}
				fmt.Fprintf(&e.Out, ") %s)\n", sortOf(n.W))
			}
			fmt.Fprintf(&e.Out, "(define-fun t%d () %s %s)\n", n.id, sortOf(n.W), body(n))
		}
	}
}

// Eval evaluates t under an assignment of variables (UF applications must be in the assignment by id).
func Eval(t *Term, env map[string]uint64, memo map[int]uint64) uint64 {
	if v, ok := memo[t.id]; ok {
		return v
	}
	var r uint64
	b2u := func(b bool) uint64 {
		if b {
			return 1
		}
		return 0
	}
	a := func(i int) uint64 { return Eval(t.A[i], env, memo) }
	switch t.Op {
	case OpConst:
		r = t.K
	case OpVar:
		r = env[t.Name] & mask64(t.W)
	case OpNot:
		r = b2u(a(0) == 0)
	case OpAnd:
		r = b2u(a(0) != 0 && a(1) != 0)
	case OpOr:
		r = b2u(a(0) != 0 || a(1) != 0)
	case OpIte:
		if a(0) != 0 {
			r = a(1)
		} else {
			r = a(2)
		}
	case OpEq:
		r = b2u(a(0) == a(1))
	case OpExtract:
		r = (a(0) >> t.K2) & mask(t.W)
	case OpZext:
		r = a(0)
	case OpSext:
		r = uint64(sext64(a(0), t.A[0].W)) & mask(t.W)
	case OpConcat:
		r = a(0)<<uint(t.A[1].W) | a(1)
	case OpBvNot:
		r = ^a(0) & mask(t.W)
	case OpBvNeg:
		r = -a(0) & mask(t.W)
	case OpTable:
		k := a(0)
		if k >= uint64(len(t.Tab)) {
			k = uint64(len(t.Tab) - 1)
		}
		r = t.Tab[k]
	case OpUF:
		panic("Eval: UF")
	default:
		x, y := a(0), a(1)
		w := t.A[0].W
		c := (&TB{}).evalBin(t.Op, x, y, w)
		r = c
	}
	memo[t.id] = r
	return r
}

func mask64(w int) uint64 {
	if w == 0 {
		return 1
	}
	return mask(w)
}

func (*TB) evalBin(op Op, x, y uint64, w int) uint64 {
	tb := NewTB()
	switch op {
	case OpBvUlt, OpBvUle, OpBvSlt, OpBvSle:
		return tb.Cmp(op, tb.Const(x, w), tb.Const(y, w)).K
	}
	r := tb.Bin(op, tb.Const(x, w), tb.Const(y, w))
	if !r.IsConst() {
		// division by zero per SMT-LIB semantics
		switch op {
		case OpBvSdiv:
			if sext64(x, w) < 0 {
				return 1
			}
			return mask(w)
		case OpBvSrem:
			return x
		}
		panic("evalBin")
	}
	return r.K
}
