package gosym

// Persistent SMT solver process driven over a pipe (z3 -in / cvc5 --incremental).

import (
	"bufio"
	"fmt"
	"io"
	"os"
	"os/exec"
	"strconv"
	"strings"
	"time"
)

type Verdict int

const (
	Unsat Verdict = iota
	Sat
	Unknown
)

func (v Verdict) String() string { return [...]string{"unsat", "sat", "unknown"}[v] }

type Solver struct {
	name    string
	cmd     *exec.Cmd
	in      io.WriteCloser
	out     *bufio.Reader
	Queries int
	Time    time.Duration
	Errors  []string
	dead    bool
	log     io.Writer
}

// StartSolver starts kind = "z3" | "z3-new" | "cvc5" with a per-query timeout.
func StartSolver(kind string, timeoutMs int) (*Solver, error) {
	var cmd *exec.Cmd
	switch kind {
	case "z3", "z3-new":
		cmd = exec.Command(kind, "-in", "-smt2", fmt.Sprintf("-t:%d", timeoutMs))
	case "cvc5":
		cmd = exec.Command("cvc5", "--incremental", "--lang=smt2", "--produce-models", fmt.Sprintf("--tlimit-per=%d", timeoutMs))
	default:
		return nil, fmt.Errorf("unknown solver %q", kind)
	}
	in, err := cmd.StdinPipe()
	if err != nil {
		return nil, err
	}
	outp, err := cmd.StdoutPipe()
	if err != nil {
		return nil, err
	}
	cmd.Stderr = cmd.Stdout
	if err := cmd.Start(); err != nil {
		return nil, err
	}
	s := &Solver{name: kind, cmd: cmd, in: in, out: bufio.NewReaderSize(outp, 1<<16)}
	if d := os.Getenv("GOSYM_LOG"); d != "" {
		if f, err := os.CreateTemp(d, "solver-*.smt2"); err == nil {
			s.log = f
		}
	}
	if kind == "cvc5" {
		s.Send("(set-logic ALL)\n")
	}
	s.Send("(set-option :produce-models true)\n")
	return s, nil
}

func (s *Solver) Send(txt string) {
	if s.dead {
		return
	}
	if s.log != nil {
		io.WriteString(s.log, txt)
	}
	if _, err := io.WriteString(s.in, txt); err != nil {
		s.dead = true
		s.Errors = append(s.Errors, "write: "+err.Error())
	}
}

// readLine reads one non-empty line.
func (s *Solver) readLine() (string, bool) {
	for {
		line, err := s.out.ReadString('\n')
		if err != nil {
			s.dead = true
			s.Errors = append(s.Errors, "read: "+err.Error())
			return "", false
		}
		line = strings.TrimSpace(line)
		if line != "" {
			return line, true
		}
	}
}

// CheckSat issues (check-sat) and returns the verdict. Any "(error" line makes it Unknown.
func (s *Solver) CheckSat() Verdict {
	if s.dead {
		return Unknown
	}
	t0 := time.Now()
	s.Queries++
	s.Send("(check-sat)\n")
	v := Unknown
	for {
		line, ok := s.readLine()
		if !ok {
			break
		}
		if strings.HasPrefix(line, "(error") {
			s.Errors = append(s.Errors, line)
			// keep reading: the verdict line still follows; result is inconclusive regardless
			s.drainVerdict()
			v = Unknown
			break
		}
		switch line {
		case "sat":
			v = Sat
		case "unsat":
			v = Unsat
		case "unknown", "timeout":
			v = Unknown
		default:
			s.Errors = append(s.Errors, "unexpected: "+line)
			continue
		}
		break
	}
	s.Time += time.Since(t0)
	return v
}

func (s *Solver) drainVerdict() {
	for {
		line, ok := s.readLine()
		if !ok {
			return
		}
		if line == "sat" || line == "unsat" || line == "unknown" {
			return
		}
	}
}

// GetValues returns the model values for the given variable terms (after a Sat verdict).
func (s *Solver) GetValues(vars []*Term) (map[string]uint64, error) {
	res := make(map[string]uint64)
	if len(vars) == 0 {
		return res, nil
	}
	var sb strings.Builder
	sb.WriteString("(get-value (")
	for _, v := range vars {
		sb.WriteString(ref(v) + " ")
	}
	sb.WriteString("))\n")
	s.Send(sb.String())
	// read until parentheses balance
	var txt strings.Builder
	depth := 0
	started := false
	for {
		line, ok := s.readLine()
		if !ok {
			return nil, fmt.Errorf("solver died")
		}
		if strings.HasPrefix(line, "(error") {
			s.Errors = append(s.Errors, line)
			return nil, fmt.Errorf("%s", line)
		}
		inQuote := false
		for _, c := range line {
			if c == '|' {
				inQuote = !inQuote
			}
			if inQuote {
				continue
			}
			if c == '(' {
				depth++
				started = true
			} else if c == ')' {
				depth--
			}
		}
		txt.WriteString(line + " ")
		if started && depth == 0 {
			break
		}
	}
	// parse pairs: (|name| #x..), (|name| #b..), (|name| true)
	str := txt.String()
	i := 0
	for {
		j := strings.IndexByte(str[i:], '|')
		if j < 0 {
			break
		}
		j += i
		k := strings.IndexByte(str[j+1:], '|')
		if k < 0 {
			break
		}
		k += j + 1
		name := str[j+1 : k]
		rest := strings.TrimLeft(str[k+1:], " ")
		end := strings.IndexAny(rest, " )")
		if end < 0 {
			break
		}
		tok := rest[:end]
		var val uint64
		switch {
		case strings.HasPrefix(tok, "#x"):
			val, _ = strconv.ParseUint(tok[2:], 16, 64)
		case strings.HasPrefix(tok, "#b"):
			val, _ = strconv.ParseUint(tok[2:], 2, 64)
		case tok == "true":
			val = 1
		case tok == "false":
			val = 0
		case strings.HasPrefix(tok, "(_"):
			// (_ bv123 32)
			f := strings.Fields(rest)
			if len(f) >= 2 && strings.HasPrefix(f[1], "bv") {
				val, _ = strconv.ParseUint(f[1][2:], 10, 64)
			}
		}
		res[name] = val
		i = k + 1 + (len(str[k+1:]) - len(rest)) + end
	}
	return res, nil
}

func (s *Solver) Close() {
	if s.cmd != nil && s.cmd.Process != nil {
		s.Send("(exit)\n")
		s.in.Close()
		done := make(chan struct{})
		go func() { s.cmd.Wait(); close(done) }()
		select {
		case <-done:
		case <-time.After(2 * time.Second):
			s.cmd.Process.Kill()
		}
	}
}
