package gosym

// Harness intrinsics (verif*), stdlib intrinsics and environment stubs.

import (
	"fmt"
	"go/token"
	"go/types"
	"regexp"
	"strings"
	"unsafe"

	"golang.org/x/tools/go/ssa"
)

func (e *Engine) external(fn *ssa.Function) externalFn {
	name := fn.String()
	if ov, ok := e.overrides[name]; ok && ov != fn {
		return func(fr *frame, args []value) value {
			e.noteStub("override:" + name)
			return callSSA(fr.i, fr.caller, token.NoPos, ov, args, nil)
		}
	}
	if strings.HasPrefix(fn.Name(), "verif") && fn.Pkg != nil {
		if f, ok := verifFns[fn.Name()]; ok {
			return f
		}
	}
	if strings.HasPrefix(name, "reflect.TypeFor[") {
		return func(fr *frame, args []value) value {
			e.noteStub("reflect.TypeFor")
			return iface{}
		}
	}
	if f, ok := e.externals[name]; ok {
		return func(fr *frame, args []value) value {
			e.noteStub(name)
			return f(fr, args)
		}
	}
	return nil
}

func concreteString(v value, what string) string {
	s, ok := v.(string)
	if !ok {
		panic(unsupported("symbolic string passed to " + what))
	}
	return s
}

func concreteInt(v value, what string) int64 {
	if _, ok := v.(symInt); ok {
		panic(unsupported("symbolic integer passed to " + what))
	}
	return asInt64(v)
}

var verifFns map[string]externalFn

func init() {
	nd := func(k types.BasicKind) externalFn {
		return func(fr *frame, args []value) value {
			t := fr.i.freshVar(concreteString(args[0], "verifNondet"), kindWidth(k), "int")
			return symInt{t, k}
		}
	}
	verifFns = map[string]externalFn{
		"verifNondetU64": nd(types.Uint64),
		"verifNondetU32": nd(types.Uint32),
		"verifNondetU16": nd(types.Uint16),
		"verifNondetU8":  nd(types.Uint8),
		"verifNondetInt": nd(types.Int),
		"verifNondetI64": nd(types.Int64),
		"verifNondetI32": nd(types.Int32),
		"verifNondetBool": func(fr *frame, args []value) value {
			t := fr.i.freshVar(concreteString(args[0], "verifNondetBool"), 8, "int")
			return fr.i.mkBool(fr.i.tb.Not(fr.i.tb.Eq(t, fr.i.tb.Const(0, 8))))
		},
		"verifNondetBytes": func(fr *frame, args []value) value {
			name := concreteString(args[0], "verifNondetBytes")
			n := int(concreteInt(args[1], "verifNondetBytes"))
			out := make([]value, n)
			for k := 0; k < n; k++ {
				out[k] = symInt{fr.i.freshVar(fmt.Sprintf("%s[%d]", name, k), 8, "int"), types.Uint8}
			}
			return out
		},
		"verifNondetString": func(fr *frame, args []value) value {
			name := concreteString(args[0], "verifNondetString")
			lo := int(concreteInt(args[1], "verifNondetString"))
			hi := int(concreteInt(args[2], "verifNondetString"))
			alpha := concreteString(args[3], "verifNondetString")
			if hi < lo {
				panic(pathAbort{"assume", "empty length range"})
			}
			d := fr.choose(name+".len", hi-lo+1)
			n := lo + d
			fr.i.p.nondets = append(fr.i.p.nondets, nondetRec{Name: name + ".len", Kind: "len", W: 64, val: uint64(n)})
			out := make([]value, n)
			tb := fr.i.tb
			for k := 0; k < n; k++ {
				t := fr.i.freshVar(fmt.Sprintf("%s[%d]", name, k), 8, "int")
				if alpha != "" {
					c := tb.False()
					seen := map[byte]bool{}
					for j := 0; j < len(alpha); j++ {
						if seen[alpha[j]] {
							continue
						}
						seen[alpha[j]] = true
						c = tb.Or(c, tb.Eq(t, tb.Const(uint64(alpha[j]), 8)))
					}
					fr.i.p.pc = append(fr.i.p.pc, c)
				}
				out[k] = symInt{t, types.Uint8}
			}
			return mkString(out)
		},
		"verifChoose": func(fr *frame, args []value) value {
			name := concreteString(args[0], "verifChoose")
			n := int(concreteInt(args[1], "verifChoose"))
			d := fr.choose(name, n)
			fr.i.p.nondets = append(fr.i.p.nondets, nondetRec{Name: name, Kind: "choose", W: 64, val: uint64(d)})
			return d
		},
		"verifAssume": func(fr *frame, args []value) value {
			fr.assumeCond(args[0])
			return nil
		},
		"verifAssert": func(fr *frame, args []value) value {
			fr.assertCond(args[0], concreteString(args[1], "verifAssert"))
			return nil
		},
		"verifReach": func(fr *frame, args []value) value {
			fr.i.p.reached[concreteString(args[0], "verifReach")] = true
			return nil
		},
		"verifUF": func(fr *frame, args []value) value {
			// verifUF(name string, bits int, args ...uint64) uint64
			name := concreteString(args[0], "verifUF")
			bits := int(concreteInt(args[1], "verifUF"))
			var ts []*Term
			for _, a := range args[2].([]value) {
				ts = append(ts, fr.i.termOf(a))
			}
			sym := fmt.Sprintf("uf_%s_%d", name, len(ts))
			t := fr.i.tb.UF(sym, bits, ts...)
			// record each distinct application once for replay
			found := false
			for _, n := range fr.i.p.nondets {
				if n.t == t {
					found = true
				}
			}
			if !found {
				fr.i.p.nondets = append(fr.i.p.nondets, nondetRec{Name: sym, Kind: "uf", W: bits, t: t})
			}
			return symInt{fr.i.tb.Zext(t, 64), types.Uint64}.norm(fr.i)
		},
		"verifRunSpawned": func(fr *frame, args []value) value {
			n := 0
			for len(fr.i.spawned) > 0 {
				s := fr.i.spawned[0]
				fr.i.spawned = fr.i.spawned[1:]
				call(fr.i, nil, s.pos, s.fn, s.args)
				n++
			}
			return n
		},
		// verifRunUntilBlocked(f func()) bool: runs f like a goroutine of its own; true if f parked on a blocking
		// operation (channel, lock, WaitGroup) instead of finishing. The parked frames are abandoned.
		"verifRunUntilBlocked": func(fr *frame, args []value) (res value) {
			defer func() {
				if r := recover(); r != nil {
					if pa, ok := r.(pathAbort); ok && pa.kind == "blocked" {
						res = true
						return
					}
					panic(r)
				}
			}()
			call(fr.i, fr, token.NoPos, args[0], nil)
			return false
		},
		"verifDropSpawned": func(fr *frame, args []value) value {
			n := len(fr.i.spawned)
			fr.i.spawned = nil
			return n
		},
		// verifGuard(obj any, lock any): obj is a pointer to a struct (all its cells, nested by value, and maps held
		// directly in them are guarded) or a map; lock is a pointer to the sync.Mutex / sync.RWMutex protecting it.
		"verifGuard": func(fr *frame, args []value) value {
			lk, _ := args[1].(iface).v.(*value)
			if lk == nil {
				panic(unsupported("verifGuard: lock must be a non-nil pointer"))
			}
			switch o := args[0].(iface).v.(type) {
			case *value:
				if o == nil {
					panic(unsupported("verifGuard: nil object"))
				}
				fr.i.guardValue(o, lk)
			case *omap:
				fr.i.guardMaps[o] = lk
			default:
				panic(unsupported(fmt.Sprintf("verifGuard on %T", o)))
			}
			return nil
		},
		"verifSetClock": func(fr *frame, args []value) value {
			fr.i.clockNs = concreteInt(args[0], "verifSetClock")
			return nil
		},
		"verifIsSymbolicEngine": func(fr *frame, args []value) value { return true },
		"verifLockHeld": func(fr *frame, args []value) value {
			// verifLockHeld(m *sync.Mutex) bool  (accepts any pointer)
			p, _ := args[0].(*value)
			return fr.i.locks[p] > 0
		},
	}
}

func (s symInt) norm(i *interpreter) value { return i.mkInt(s.t, s.k) }

// DefaultExternals returns the table of stdlib intrinsics and environment stubs.
func DefaultExternals() map[string]externalFn {
	nop := func(fr *frame, args []value) value { return nil }
	m := map[string]externalFn{
		// --- sync
		"(*sync.Mutex).Lock": func(fr *frame, args []value) value {
			p := args[0].(*value)
			if fr.i.locks[p] > 0 {
				panic(pathAbort{"blocked", "sync.Mutex.Lock on a mutex already held (self-deadlock)"})
			}
			fr.i.locks[p] = 1
			return nil
		},
		"(*sync.Mutex).TryLock": func(fr *frame, args []value) value {
			p := args[0].(*value)
			if fr.i.locks[p] > 0 {
				return false
			}
			fr.i.locks[p] = 1
			return true
		},
		"(*sync.Mutex).Unlock": func(fr *frame, args []value) value {
			p := args[0].(*value)
			if fr.i.locks[p] == 0 {
				panic(targetPanic{"fatal error: sync: unlock of unlocked mutex"})
			}
			fr.i.locks[p] = 0
			return nil
		},
		"(*sync.RWMutex).Lock": func(fr *frame, args []value) value {
			p := args[0].(*value)
			if fr.i.locks[p] != 0 {
				panic(pathAbort{"blocked", "sync.RWMutex.Lock on a mutex already held"})
			}
			fr.i.locks[p] = 1
			return nil
		},
		"(*sync.RWMutex).Unlock": func(fr *frame, args []value) value {
			p := args[0].(*value)
			if fr.i.locks[p] != 1 {
				panic(targetPanic{"fatal error: sync: Unlock of unlocked RWMutex"})
			}
			fr.i.locks[p] = 0
			return nil
		},
		"(*sync.RWMutex).RLock": func(fr *frame, args []value) value {
			p := args[0].(*value)
			if fr.i.locks[p] == 1 {
				panic(pathAbort{"blocked", "sync.RWMutex.RLock while write-locked"})
			}
			fr.i.locks[p] += 2
			return nil
		},
		"(*sync.RWMutex).RUnlock": func(fr *frame, args []value) value {
			p := args[0].(*value)
			if fr.i.locks[p] < 2 {
				panic(targetPanic{"fatal error: sync: RUnlock of unlocked RWMutex"})
			}
			fr.i.locks[p] -= 2
			return nil
		},
		"(*sync.Once).Do": func(fr *frame, args []value) value {
			p := args[0].(*value)
			if !fr.i.onceDone[p] {
				fr.i.onceDone[p] = true
				call(fr.i, fr, token.NoPos, args[1], nil)
			}
			return nil
		},
		"(*sync.Pool).Get": func(fr *frame, args []value) value {
			p := args[0].(*value)
			st := (*p).(structure)
			// field "New" is the last field
			newf := st[len(st)-1]
			switch f := newf.(type) {
			case *ssa.Function:
				if f == nil {
					return iface{}
				}
			}
			return call(fr.i, fr, token.NoPos, newf, nil)
		},
		"(*sync.Pool).Put": nop,

		// --- runtime / misc
		"runtime.SetFinalizer": nop,
		"runtime.KeepAlive":    nop,
		"runtime.GC":           nop,
		"runtime.Gosched":      nop,
		"runtime.NumGoroutine": func(fr *frame, args []value) value { return 1 },
		"runtime.GOMAXPROCS":   func(fr *frame, args []value) value { return 1 },
		"runtime.NumCPU":       func(fr *frame, args []value) value { return 1 },
		"internal/race.Enable": nop, "internal/race.Disable": nop,
		"internal/race.Acquire": nop, "internal/race.Release": nop, "internal/race.ReleaseMerge": nop,
		"internal/race.Read": nop, "internal/race.Write": nop,
		"internal/race.ReadRange": nop, "internal/race.WriteRange": nop,

		// --- bytealg
		"internal/bytealg.IndexByteString": func(fr *frame, args []value) value {
			return fr.indexByte(strBytes(args[0]), args[1])
		},
		"internal/bytealg.IndexByte": func(fr *frame, args []value) value {
			return fr.indexByte(args[0].([]value), args[1])
		},
		"internal/bytealg.CountString": func(fr *frame, args []value) value {
			return fr.countByte(strBytes(args[0]), args[1])
		},
		"internal/bytealg.Count": func(fr *frame, args []value) value {
			return fr.countByte(args[0].([]value), args[1])
		},
		"internal/bytealg.Equal": func(fr *frame, args []value) value {
			return fr.i.strEq(mkString(args[0].([]value)), mkString(args[1].([]value)))
		},
		"internal/bytealg.MakeNoZero": func(fr *frame, args []value) value {
			n := int(concreteInt(args[0], "MakeNoZero"))
			s := make([]value, n)
			for k := range s {
				s[k] = uint8(0)
			}
			return s
		},
		"internal/bytealg.Compare": func(fr *frame, args []value) value {
			return fr.compareBytes(args[0].([]value), args[1].([]value))
		},
		"internal/bytealg.IndexString": func(fr *frame, args []value) value {
			return fr.indexString(strBytes(args[0]), strBytes(args[1]))
		},
		"internal/bytealg.Index": func(fr *frame, args []value) value {
			return fr.indexString(args[0].([]value), args[1].([]value))
		},
		"strings.Index": func(fr *frame, args []value) value {
			return fr.indexString(strBytes(args[0]), strBytes(args[1]))
		},
		"internal/stringslite.Index": func(fr *frame, args []value) value {
			return fr.indexString(strBytes(args[0]), strBytes(args[1]))
		},
		"strings.Compare": func(fr *frame, args []value) value {
			return fr.compareBytes(strBytes(args[0]), strBytes(args[1]))
		},
		"internal/abi.NoEscape":        func(fr *frame, args []value) value { return args[0] },
		"(*strings.Builder).copyCheck": nop,
		"(*strings.Builder).String": func(fr *frame, args []value) value {
			p := args[0].(*value)
			st := (*p).(structure)
			buf, _ := st[1].([]value)
			return mkString(buf)
		},
		"strings.Clone":              func(fr *frame, args []value) value { return args[0] },
		"internal/stringslite.Clone": func(fr *frame, args []value) value { return args[0] },
		"strconv.cloneString":        func(fr *frame, args []value) value { return args[0] },
		"strings.ToLower":            func(fr *frame, args []value) value { return fr.asciiCase(args[0], false) },
		"strings.ToUpper":            func(fr *frame, args []value) value { return fr.asciiCase(args[0], true) },
		"(*bytes.Buffer).String": func(fr *frame, args []value) value {
			p := args[0].(*value)
			if p == nil {
				return "<nil>"
			}
			st := (*p).(structure)
			buf, _ := st[0].([]value)
			off := int(asInt64(st[1]))
			return mkString(buf[off:])
		},
		"unicode/utf8.DecodeRuneInString": func(fr *frame, args []value) value {
			b := strBytes(args[0])
			if len(b) == 0 {
				return tuple{rune(0xFFFD), 0}
			}
			it := &symStringIter{fr: fr, b: b}
			t := it.next()
			return tuple{t[2], it.i}
		},
		"unicode/utf8.DecodeRune": func(fr *frame, args []value) value {
			b := args[0].([]value)
			if len(b) == 0 {
				return tuple{rune(0xFFFD), 0}
			}
			it := &symStringIter{fr: fr, b: b}
			t := it.next()
			return tuple{t[2], it.i}
		},

		// --- log
		"(*log.Logger).Println": nop, "(*log.Logger).Printf": nop, "(*log.Logger).Print": nop,
		"(*log.Logger).Output": func(fr *frame, args []value) value { return iface{} },
		"log.Println":          nop, "log.Printf": nop, "log.Print": nop,
		"(*log.Logger).Fatal": logFatal, "(*log.Logger).Fatalf": logFatal, "(*log.Logger).Fatalln": logFatal,
		"log.Fatal": logFatal, "log.Fatalf": logFatal, "log.Fatalln": logFatal,
		"(*log.Logger).Panic": logFatal, "(*log.Logger).Panicf": logFatal, "(*log.Logger).Panicln": logFatal,
		"log.Panic": logFatal, "log.Panicf": logFatal, "log.Panicln": logFatal,

		// --- fmt
		"fmt.Sprintf": func(fr *frame, args []value) value {
			return fr.sprintf(concreteString(args[0], "fmt.Sprintf"), args[1].([]value), false)
		},
		"fmt.Sprint": func(fr *frame, args []value) value {
			return fr.sprint(args[0].([]value), false)
		},
		"fmt.Sprintln": func(fr *frame, args []value) value {
			return fr.sprint(args[0].([]value), false) + "\n"
		},
		"fmt.Errorf": func(fr *frame, args []value) value {
			msg := fr.sprintf(concreteString(args[0], "fmt.Errorf"), args[1].([]value), true)
			return fr.i.newError(msg)
		},
		"fmt.Println": nop, "fmt.Printf": nop, "fmt.Print": nop,
		"fmt.Fprintf":  func(fr *frame, args []value) value { return tuple{0, iface{}} },
		"fmt.Fprintln": func(fr *frame, args []value) value { return tuple{0, iface{}} },
		"fmt.Fprint":   func(fr *frame, args []value) value { return tuple{0, iface{}} },

		// --- regexp (native objects)
		"regexp.MustCompile": func(fr *frame, args []value) value {
			re := regexp.MustCompile(concreteString(args[0], "regexp.MustCompile"))
			var cell value = &native{"regexp", re}
			return &cell
		},
		"regexp.Compile": func(fr *frame, args []value) value {
			re, err := regexp.Compile(concreteString(args[0], "regexp.Compile"))
			if err != nil {
				return tuple{(*value)(nil), fr.i.newError(err.Error())}
			}
			var cell value = &native{"regexp", re}
			return tuple{&cell, iface{}}
		},
		"(*regexp.Regexp).MatchString": func(fr *frame, args []value) value {
			if _, ok := args[1].(symString); ok {
				return fr.rxMatchString(nativeRegexp(args[0]), args[1])
			}
			return nativeRegexp(args[0]).MatchString(concreteString(args[1], "Regexp.MatchString"))
		},
		"(*regexp.Regexp).FindString": func(fr *frame, args []value) value {
			if _, ok := args[1].(symString); ok {
				return fr.rxFindString(nativeRegexp(args[0]), args[1])
			}
			return nativeRegexp(args[0]).FindString(concreteString(args[1], "Regexp.FindString"))
		},
		"(*regexp.Regexp).FindStringSubmatch": func(fr *frame, args []value) value {
			if _, ok := args[1].(symString); ok {
				return fr.rxFindStringSubmatch(nativeRegexp(args[0]), args[1])
			}
			r := nativeRegexp(args[0]).FindStringSubmatch(concreteString(args[1], "Regexp.FindStringSubmatch"))
			if r == nil {
				return []value(nil)
			}
			out := make([]value, len(r))
			for k := range r {
				out[k] = r[k]
			}
			return out
		},
		"(*regexp.Regexp).ReplaceAllString": func(fr *frame, args []value) value {
			return nativeRegexp(args[0]).ReplaceAllString(concreteString(args[1], "Regexp.ReplaceAllString"), concreteString(args[2], "Regexp.ReplaceAllString"))
		},
		"(*regexp.Regexp).String": func(fr *frame, args []value) value {
			return nativeRegexp(args[0]).String()
		},

		// --- time
		"time.Now": func(fr *frame, args []value) value { return fr.i.timeFromNs(fr.i.clockNs) },
		"time.now": func(fr *frame, args []value) value {
			ns := fr.i.clockNs
			return tuple{int64(ns / 1e9), int32(ns % 1e9), int64(ns)}
		},
		"time.runtimeNano": func(fr *frame, args []value) value { return int64(fr.i.clockNs) },
		"time.Sleep":       nop,
		"time.Since": func(fr *frame, args []value) value {
			return int64(0)
		},
		// time.Until(t): an arbitrary duration (environment stub; avoids 64-bit multiplication by 1e9
		// on symbolic instants, which no installed solver decides)
		"time.Until": func(fr *frame, args []value) value {
			if !containsSym(args[0]) {
				fr.i.skipExternal = fr.fn
				return callSSA(fr.i, fr.caller, token.NoPos, fr.fn, args, nil)
			}
			return symInt{fr.i.freshVar("env:time.Until", 64, "env"), types.Int64}
		},
		// t.Sub(u) with a symbolic operand: arbitrary duration, for the same reason
		"(time.Time).Sub": func(fr *frame, args []value) value {
			if !containsSym(args[0]) && !containsSym(args[1]) {
				fr.i.skipExternal = fr.fn
				return callSSA(fr.i, fr.caller, token.NoPos, fr.fn, args, nil)
			}
			return symInt{fr.i.freshVar("env:time.Sub", 64, "env"), types.Int64}
		},
		// the process environment is empty
		"syscall.runtime_envs":       func(fr *frame, args []value) value { return []value(nil) },
		"internal/godebug.setUpdate": nop, "internal/godebug.registerMetric": nop, "internal/godebug.setNewIncNonDefault": nop,
		"internal/syscall/unix.Fcntl": func(fr *frame, args []value) value { return tuple{0, iface{}} }, // os.init probes the standard descriptors
		"os.runtime_args":             func(fr *frame, args []value) value { return []value{"verif"} },  // the process arguments
		"syscall.Getrlimit": func(fr *frame, args []value) value {
			return fr.i.newError("getrlimit: not available under symbolic execution")
		},
		"(*time.Location).get": func(fr *frame, args []value) value { return args[0] },
		"time.NewTimer":        func(fr *frame, args []value) value { return fr.i.newTimer(fr.fn, "Timer") },
		"time.NewTicker":       func(fr *frame, args []value) value { return fr.i.newTimer(fr.fn, "Ticker") },
		"time.AfterFunc":       func(fr *frame, args []value) value { return fr.i.newTimer(fr.fn, "Timer") },
		"time.After": func(fr *frame, args []value) value {
			fr.i.nextChanID++
			return &channel{cap: 1, id: fr.i.nextChanID}
		},
		// time.Tick: the returned channel holds ONE pending tick (the first tick has just elapsed); after it is
		// consumed the channel stays empty, i.e. the ticking loop parks until the harness ends.
		"time.Tick": func(fr *frame, args []value) value {
			fr.i.nextChanID++
			return &channel{cap: 1, id: fr.i.nextChanID, buf: []value{fr.i.timeFromNs(fr.i.clockNs)}}
		},
		"(*time.Timer).Stop":   func(fr *frame, args []value) value { return fr.i.timerArm(args[0], false) },
		"(*time.Timer).Reset":  func(fr *frame, args []value) value { return fr.i.timerArm(args[0], true) },
		"(*time.Ticker).Stop":  func(fr *frame, args []value) value { fr.i.timerArm(args[0], false); return nil },
		"(*time.Ticker).Reset": func(fr *frame, args []value) value { fr.i.timerArm(args[0], true); return nil },

		// --- sync.Map (deterministic model)
		"(*sync.Map).Load": func(fr *frame, args []value) value {
			v, ok := fr.mapLookup(fr.i.syncMap(args[0]), args[1], anyType)
			if !ok {
				return tuple{iface{}, false}
			}
			return tuple{v, true}
		},
		"(*sync.Map).Store": func(fr *frame, args []value) value {
			fr.mapInsert(fr.i.syncMap(args[0]), args[1], args[2], anyType)
			return nil
		},
		"(*sync.Map).LoadOrStore": func(fr *frame, args []value) value {
			m := fr.i.syncMap(args[0])
			if v, ok := fr.mapLookup(m, args[1], anyType); ok {
				return tuple{v, true}
			}
			fr.mapInsert(m, args[1], args[2], anyType)
			return tuple{args[2], false}
		},
		"(*sync.Map).LoadAndDelete": func(fr *frame, args []value) value {
			m := fr.i.syncMap(args[0])
			if v, ok := fr.mapLookup(m, args[1], anyType); ok {
				fr.mapDelete(m, args[1], anyType)
				return tuple{v, true}
			}
			return tuple{iface{}, false}
		},
		"(*sync.Map).Delete": func(fr *frame, args []value) value {
			fr.mapDelete(fr.i.syncMap(args[0]), args[1], anyType)
			return nil
		},
		"(*sync.Map).Range": func(fr *frame, args []value) value {
			m := fr.i.syncMap(args[0])
			it := &mapIter{m: m}
			for {
				t := it.next()
				if t[0] != true {
					break
				}
				r := call(fr.i, fr, token.NoPos, args[1], []value{t[1], t[2]})
				if r == false {
					break
				}
			}
			return nil
		},
		"(*sync.WaitGroup).Add": func(fr *frame, args []value) value {
			p := args[0].(*value)
			fr.i.wg[p] += int(concreteInt(args[1], "WaitGroup.Add"))
			if fr.i.wg[p] < 0 {
				panic(targetPanic{"sync: negative WaitGroup counter"})
			}
			return nil
		},
		"(*sync.WaitGroup).Done": func(fr *frame, args []value) value {
			p := args[0].(*value)
			fr.i.wg[p]--
			if fr.i.wg[p] < 0 {
				panic(targetPanic{"sync: negative WaitGroup counter"})
			}
			return nil
		},
		"(*sync.WaitGroup).Wait": func(fr *frame, args []value) value {
			p := args[0].(*value)
			if fr.i.wg[p] > 0 {
				panic(pathAbort{"blocked", "sync.WaitGroup.Wait with non-zero counter"})
			}
			return nil
		},
	}
	addAtomics(m)
	for k, v := range binaryExternals {
		m[k] = v
	}
	for k, v := range reflectExternals {
		m[k] = v
	}
	return m
}

func logFatal(fr *frame, args []value) value {
	panic(targetPanic{"log.Fatal/Panic called"})
}

func nativeRegexp(v value) *regexp.Regexp {
	p, ok := v.(*value)
	if !ok || p == nil {
		panic(nilDeref())
	}
	n, ok := (*p).(*native)
	if !ok {
		panic(unsupported("regexp object not created through regexp.Compile intrinsic"))
	}
	return n.obj.(*regexp.Regexp)
}

// newError builds an error value like errors.New(msg).
func (i *interpreter) newError(msg string) value {
	pkg := i.prog.ImportedPackage("errors")
	if pkg == nil {
		panic(unsupported("errors package not loaded"))
	}
	fn := pkg.Func("New")
	return callSSA(i, nil, token.NoPos, fn, []value{msg}, nil)
}

// timeFromNs builds a time.Time (UTC-less, wall-clock only encoding with hasMonotonic=0).
func (i *interpreter) timeFromNs(ns int64) value {
	pkg := i.prog.ImportedPackage("time")
	fn := pkg.Func("Unix")
	t := callSSA(i, nil, token.NoPos, fn, []value{int64(ns / 1e9), int64(ns % 1e9)}, nil)
	// force UTC location (nil loc pointer means UTC)
	st := t.(structure)
	st[2] = (*value)(nil)
	return st
}

func (fr *frame) indexByte(b []value, c value) value {
	for k, e := range b {
		eq := fr.i.equals(types.Typ[types.Uint8], e, c)
		switch eq := eq.(type) {
		case bool:
			if eq {
				return k
			}
		case symBool:
			if fr.branch(eq.t, "index-byte") {
				return k
			}
		}
	}
	return -1
}

func (fr *frame) countByte(b []value, c value) value {
	i := fr.i
	acc := i.tb.Const(0, 64)
	for _, e := range b {
		eq := i.termOf(i.equals(types.Typ[types.Uint8], e, c))
		acc = i.tb.Bin(OpBvAdd, acc, i.tb.Ite(eq, i.tb.Const(1, 64), i.tb.Const(0, 64)))
	}
	return i.mkInt(acc, types.Int)
}

func (fr *frame) compareBytes(a, b []value) value {
	lt := fr.i.strLess(mkString(a), mkString(b))
	switch c := lt.(type) {
	case bool:
		if c {
			return -1
		}
	case symBool:
		if fr.branch(c.t, "compare-lt") {
			return -1
		}
	}
	eq := fr.i.strEq(mkString(a), mkString(b))
	switch c := eq.(type) {
	case bool:
		if c {
			return 0
		}
	case symBool:
		if fr.branch(c.t, "compare-eq") {
			return 0
		}
	}
	return 1
}

func (fr *frame) indexString(s, sub []value) value {
	n := len(sub)
	if n == 0 {
		return 0
	}
	for k := 0; k+n <= len(s); k++ {
		eq := fr.i.strEq(mkString(s[k:k+n]), mkString(sub))
		switch c := eq.(type) {
		case bool:
			if c {
				return k
			}
		case symBool:
			if fr.branch(c.t, "index-string") {
				return k
			}
		}
	}
	return -1
}

// hostArg converts an interpreted value (inside an interface) to a host value for fmt.
func (fr *frame) hostArg(a value, lenient bool) interface{} {
	itf, ok := a.(iface)
	if !ok {
		return toString(a)
	}
	if itf.t == nil {
		return nil
	}
	if containsSym(itf.v) {
		if !lenient {
			panic(unsupported("symbolic value formatted by fmt.Sprintf"))
		}
		fr.i.eng.noteStub("fmt:symbolic-argument-rendered-as-placeholder")
		return "<symbolic>"
	}
	// error / Stringer
	if _, isBasic := itf.t.(*types.Basic); !isBasic {
		for _, mname := range []string{"Error", "String"} {
			ms := fr.i.prog.MethodSets.MethodSet(itf.t)
			for k := 0; k < ms.Len(); k++ {
				sel := ms.At(k)
				if sel.Obj().Name() == mname {
					sig := sel.Type().(*types.Signature)
					if sig.Params().Len() == 0 && sig.Results().Len() == 1 && types.Identical(sig.Results().At(0).Type(), types.Typ[types.String]) {
						m := fr.i.prog.MethodValue(sel)
						if m != nil {
							if p, isPtr := itf.v.(*value); isPtr && p == nil {
								return "<nil>"
							}
							r := callSSA(fr.i, fr, token.NoPos, m, []value{itf.v}, nil)
							if s, ok := r.(string); ok {
								return s
							}
							return toString(r)
						}
					}
				}
			}
		}
	}
	switch v := itf.v.(type) {
	case bool, int, int8, int16, int32, int64, uint, uint8, uint16, uint32, uint64, uintptr, float32, float64, string:
		return v
	case []value:
		// []byte or []string etc.
		if sl, ok := itf.t.Underlying().(*types.Slice); ok {
			if b, ok := sl.Elem().Underlying().(*types.Basic); ok && b.Kind() == types.Uint8 {
				bs := make([]byte, len(v))
				for k := range v {
					bs[k] = v[k].(uint8)
				}
				return bs
			}
		}
		out := make([]interface{}, len(v))
		for k := range v {
			out[k] = fr.hostArg(iface{sliceElem(itf.t), v[k]}, lenient)
		}
		return out
	case iface:
		return fr.hostArg(v, lenient)
	}
	return toString(itf.v)
}

func sliceElem(t types.Type) types.Type {
	if sl, ok := t.Underlying().(*types.Slice); ok {
		return sl.Elem()
	}
	return types.Typ[types.Int]
}

func (fr *frame) sprintf(format string, args []value, lenient bool) string {
	host := make([]interface{}, len(args))
	for k, a := range args {
		host[k] = fr.hostArg(a, lenient)
	}
	return fmt.Sprintf(format, host...)
}

func (fr *frame) sprint(args []value, lenient bool) string {
	host := make([]interface{}, len(args))
	for k, a := range args {
		host[k] = fr.hostArg(a, lenient)
	}
	return fmt.Sprint(host...)
}

// ---------------------------------------------------------------------------
// sync/atomic

func addAtomics(m map[string]externalFn) {
	loadFn := func(fr *frame, args []value) value {
		p := args[0].(*value)
		if p == nil {
			panic(nilDeref())
		}
		return *p
	}
	storeFn := func(fr *frame, args []value) value {
		p := args[0].(*value)
		if p == nil {
			panic(nilDeref())
		}
		*p = args[1]
		return nil
	}
	addFn := func(fr *frame, args []value) value {
		p := args[0].(*value)
		if p == nil {
			panic(nilDeref())
		}
		*p = binop(fr, token.ADD, nil, *p, args[1])
		return *p
	}
	swapFn := func(fr *frame, args []value) value {
		p := args[0].(*value)
		old := *p
		*p = args[1]
		return old
	}
	casFn := func(fr *frame, args []value) value {
		p := args[0].(*value)
		eq := fr.i.equals(types.Typ[types.Int], *p, args[1])
		var is bool
		switch c := eq.(type) {
		case bool:
			is = c
		case symBool:
			is = fr.branch(c.t, "cas")
		}
		if is {
			*p = args[2]
		}
		return is
	}
	casPtr := func(fr *frame, args []value) value {
		p := args[0].(*value)
		if *p == args[1] {
			*p = args[2]
			return true
		}
		return false
	}
	for _, t := range []string{"Int32", "Int64", "Uint32", "Uint64", "Uintptr"} {
		m["sync/atomic.Load"+t] = loadFn
		m["sync/atomic.Store"+t] = storeFn
		m["sync/atomic.Add"+t] = addFn
		m["sync/atomic.Swap"+t] = swapFn
		m["sync/atomic.CompareAndSwap"+t] = casFn
	}
	// sync/atomic.Value: the real implementation type-puns interface words through unsafe.Pointer
	avKey := func(v value) *value {
		p, _ := v.(*value)
		if p == nil {
			panic(nilDeref())
		}
		return p
	}
	m["(*sync/atomic.Value).Load"] = func(fr *frame, args []value) value {
		if v, ok := fr.i.atomicValues[avKey(args[0])]; ok {
			return v
		}
		return iface{}
	}
	m["(*sync/atomic.Value).Store"] = func(fr *frame, args []value) value {
		if x, ok := args[1].(iface); ok && x.t == nil {
			panic(targetPanic{"sync/atomic: store of nil value into Value"})
		}
		fr.i.atomicValues[avKey(args[0])] = args[1]
		return nil
	}
	m["(*sync/atomic.Value).Swap"] = func(fr *frame, args []value) value {
		k := avKey(args[0])
		old, ok := fr.i.atomicValues[k]
		fr.i.atomicValues[k] = args[1]
		if !ok {
			return iface{}
		}
		return old
	}
	m["sync/atomic.LoadPointer"] = loadFn
	m["sync/atomic.StorePointer"] = storeFn
	m["sync/atomic.SwapPointer"] = swapFn
	m["sync/atomic.CompareAndSwapPointer"] = casPtr
	for _, pfx := range []string{"internal/runtime/atomic", "runtime/internal/atomic"} {
		m[pfx+".Load"] = loadFn
		m[pfx+".Load64"] = loadFn
		m[pfx+".Store"] = storeFn
		m[pfx+".Store64"] = storeFn
		m[pfx+".Xadd"] = addFn
		m[pfx+".Xadd64"] = addFn
		m[pfx+".Cas"] = casFn
		m[pfx+".Cas64"] = casFn
	}
}

var _ = unsafe.Pointer(nil)

// asciiCase implements strings.ToLower/ToUpper for strings with symbolic bytes: when every byte is
// ASCII (decided by the solver) the result is the byte-wise case mapping; otherwise the real
// function body is interpreted.
func (fr *frame) asciiCase(s value, upper bool) value {
	i := fr.i
	tb := i.tb
	name := "ToLower"
	if upper {
		name = "ToUpper"
	}
	fn := fr.fn // the intrinsic is entered with fr.fn = strings.ToLower/ToUpper
	if cs, ok := s.(string); ok {
		if upper {
			return strings.ToUpper(cs)
		}
		return strings.ToLower(cs)
	}
	b := strBytes(s)
	ascii := tb.True()
	for _, c := range b {
		ascii = tb.And(ascii, tb.Cmp(OpBvUlt, i.termOf(c), tb.Const(0x80, 8)))
	}
	if !fr.branch(ascii, "ascii-"+name) {
		i.skipExternal = fn
		return callSSA(i, fr.caller, token.NoPos, fn, []value{s}, nil)
	}
	out := make([]value, len(b))
	for k, c := range b {
		ct := i.termOf(c)
		var lo, hi uint64 = 'A', 'Z'
		var delta uint64 = 32
		if upper {
			lo, hi = 'a', 'z'
			delta = 0xE0 // -32 mod 256
		}
		in := tb.And(tb.Cmp(OpBvUle, tb.Const(lo, 8), ct), tb.Cmp(OpBvUle, ct, tb.Const(hi, 8)))
		out[k] = i.mkInt(tb.Ite(in, tb.Bin(OpBvAdd, ct, tb.Const(delta, 8)), ct), types.Uint8)
	}
	return mkString(out)
}

// newTimer builds a *time.Timer / *time.Ticker whose channel never fires by itself.
func (i *interpreter) newTimer(fn *ssa.Function, typ string) value {
	t := fn.Pkg.Type(typ).Type()
	st := zero(t).(structure)
	i.nextChanID++
	st[0] = &channel{cap: 1, id: i.nextChanID}
	var cell value = st
	p := &cell
	i.timers[p] = true
	return p
}

// timerArm models Stop/Reset: returns whether the timer was armed before.
func (i *interpreter) timerArm(t value, arm bool) value {
	p, _ := t.(*value)
	if p == nil {
		panic(nilDeref())
	}
	was := i.timers[p]
	i.timers[p] = arm
	return was
}

func (i *interpreter) syncMap(m value) *omap {
	p, _ := m.(*value)
	if p == nil {
		panic(nilDeref())
	}
	om := i.syncMaps[p]
	if om == nil {
		om = makeMap(nil)
		i.syncMaps[p] = om
	}
	return om
}

// ---------------------------------------------------------------------------
// encoding/binary.Size/Read/Write for fixed-size data (no reflection)

func binSize(t types.Type) int {
	switch u := t.Underlying().(type) {
	case *types.Basic:
		switch u.Kind() {
		case types.Bool, types.Int8, types.Uint8:
			return 1
		case types.Int16, types.Uint16:
			return 2
		case types.Int32, types.Uint32, types.Float32:
			return 4
		case types.Int64, types.Uint64, types.Float64:
			return 8
		}
	case *types.Struct:
		n := 0
		for k := 0; k < u.NumFields(); k++ {
			s := binSize(u.Field(k).Type())
			if s < 0 {
				return -1
			}
			n += s
		}
		return n
	case *types.Array:
		s := binSize(u.Elem())
		if s < 0 {
			return -1
		}
		return s * int(u.Len())
	case *types.Pointer:
		return binSize(u.Elem())
	}
	return -1
}

func (i *interpreter) binEncode(v value, t types.Type, little bool, out *[]value) {
	switch u := t.Underlying().(type) {
	case *types.Basic:
		if u.Kind() == types.Bool {
			if v == true {
				*out = append(*out, uint8(1))
			} else if v == false {
				*out = append(*out, uint8(0))
			} else {
				panic(unsupported("binary.Write of symbolic bool"))
			}
			return
		}
		k, ok := intKind(v)
		if !ok {
			panic(unsupported(fmt.Sprintf("binary.Write of %T", v)))
		}
		n := kindWidth(k) / 8
		tv := i.termOf(v)
		bs := make([]value, n)
		for b := 0; b < n; b++ {
			bs[b] = i.mkInt(i.tb.Extract(tv, b*8+7, b*8), types.Uint8)
		}
		if !little {
			for a, b := 0, n-1; a < b; a, b = a+1, b-1 {
				bs[a], bs[b] = bs[b], bs[a]
			}
		}
		*out = append(*out, bs...)
	case *types.Struct:
		st := v.(structure)
		for k := 0; k < u.NumFields(); k++ {
			i.binEncode(st[k], u.Field(k).Type(), little, out)
		}
	case *types.Array:
		for _, e := range v.(array) {
			i.binEncode(e, u.Elem(), little, out)
		}
	default:
		panic(unsupported("binary.Write of " + t.String()))
	}
}

func (i *interpreter) binDecode(in []value, pos *int, t types.Type, little bool) value {
	switch u := t.Underlying().(type) {
	case *types.Basic:
		if u.Kind() == types.Bool {
			b := in[*pos]
			*pos++
			return i.boolNot(i.equals(types.Typ[types.Uint8], b, uint8(0)))
		}
		n := kindWidth(u.Kind()) / 8
		bs := in[*pos : *pos+n]
		*pos += n
		var acc *Term
		for b := 0; b < n; b++ {
			idx := b
			if little {
				idx = n - 1 - b
			}
			tb := i.termOf(bs[idx])
			if acc == nil {
				acc = tb
			} else {
				acc = i.tb.Concat(acc, tb)
			}
		}
		return i.mkInt(acc, u.Kind())
	case *types.Struct:
		st := make(structure, u.NumFields())
		for k := 0; k < u.NumFields(); k++ {
			st[k] = i.binDecode(in, pos, u.Field(k).Type(), little)
		}
		return st
	case *types.Array:
		a := make(array, u.Len())
		for k := range a {
			a[k] = i.binDecode(in, pos, u.Elem(), little)
		}
		return a
	}
	panic(unsupported("binary.Read into " + t.String()))
}

func isLittle(order value) bool {
	itf, ok := order.(iface)
	if !ok || itf.t == nil {
		panic(unsupported("binary: nil byte order"))
	}
	return strings.Contains(itf.t.String(), "littleEndian")
}

func (fr *frame) callMethod(recv iface, name string, args ...value) value {
	m := fr.i.prog.LookupMethod(recv.t, nil, name)
	if m == nil {
		panic(unsupported("method " + name + " not found on " + recv.t.String()))
	}
	return callSSA(fr.i, fr, token.NoPos, m, append([]value{recv.v}, args...), nil)
}

func init() {
	binaryExternals = map[string]externalFn{
		"encoding/binary.Size": func(fr *frame, args []value) value {
			itf := args[0].(iface)
			if sl, ok := itf.v.([]value); ok {
				if st, ok := itf.t.Underlying().(*types.Slice); ok {
					return len(sl) * binSize(st.Elem())
				}
			}
			return binSize(itf.t)
		},
		"encoding/binary.Write": func(fr *frame, args []value) value {
			w := args[0].(iface)
			little := isLittle(args[1])
			data := args[2].(iface)
			var out []value
			switch dv := data.v.(type) {
			case *value:
				if dv == nil {
					panic(nilDeref())
				}
				fr.i.binEncode(load(mustDeref(data.t), dv), mustDeref(data.t), little, &out)
			case []value:
				et := data.t.Underlying().(*types.Slice).Elem()
				for _, e := range dv {
					fr.i.binEncode(e, et, little, &out)
				}
			default:
				fr.i.binEncode(dv, data.t, little, &out)
			}
			r := fr.callMethod(w, "Write", out)
			return r.(tuple)[1]
		},
		"encoding/binary.Read": func(fr *frame, args []value) value {
			r := args[0].(iface)
			little := isLittle(args[1])
			data := args[2].(iface)
			dp, ok := data.v.(*value)
			if !ok || dp == nil {
				panic(unsupported("binary.Read into non-pointer"))
			}
			t := mustDeref(data.t)
			n := binSize(t)
			if n < 0 {
				panic(unsupported("binary.Read into " + t.String()))
			}
			buf := make([]value, n)
			for k := range buf {
				buf[k] = uint8(0)
			}
			got := 0
			for got < n {
				res := fr.callMethod(r, "Read", buf[got:]).(tuple)
				m := int(asInt64(res[0]))
				got += m
				if e := res[1].(iface); e.t != nil {
					if got < n {
						return res[1] // io.EOF / ErrUnexpectedEOF
					}
					break
				}
				if m == 0 {
					break
				}
			}
			pos := 0
			store(t, dp, fr.i.binDecode(buf, &pos, t, little))
			return iface{}
		},
	}
}

var binaryExternals map[string]externalFn

var anyType = types.NewInterfaceType(nil, nil)

// ---------------------------------------------------------------------------
// minimal reflect: ValueOf / Kind / String / IsNil / Len (enough for kind switches on payloads)

func reflectKind(t types.Type) int {
	if t == nil {
		return 0
	}
	switch u := t.Underlying().(type) {
	case *types.Basic:
		switch u.Kind() {
		case types.Bool:
			return 1
		case types.Int:
			return 2
		case types.Int8:
			return 3
		case types.Int16:
			return 4
		case types.Int32:
			return 5
		case types.Int64:
			return 6
		case types.Uint:
			return 7
		case types.Uint8:
			return 8
		case types.Uint16:
			return 9
		case types.Uint32:
			return 10
		case types.Uint64:
			return 11
		case types.Uintptr:
			return 12
		case types.Float32:
			return 13
		case types.Float64:
			return 14
		case types.Complex64:
			return 15
		case types.Complex128:
			return 16
		case types.String:
			return 24
		case types.UnsafePointer:
			return 26
		}
	case *types.Array:
		return 17
	case *types.Chan:
		return 18
	case *types.Signature:
		return 19
	case *types.Interface:
		return 20
	case *types.Map:
		return 21
	case *types.Pointer:
		return 22
	case *types.Slice:
		return 23
	case *types.Struct:
		return 25
	}
	return 0
}

func reflectPayload(v value) iface {
	st, ok := v.(structure)
	if !ok || len(st) == 0 {
		panic(unsupported("reflect.Value not created by the ValueOf intrinsic"))
	}
	itf, ok := st[0].(iface)
	if !ok {
		return iface{}
	}
	return itf
}

func init() {
	reflectExternals = map[string]externalFn{
		"reflect.TypeOf": func(fr *frame, args []value) value { return iface{} },
		"reflect.ValueOf": func(fr *frame, args []value) value {
			st := zero(fr.fn.Signature.Results().At(0).Type()).(structure)
			st[0] = args[0].(iface)
			return st
		},
		"(reflect.Value).Kind": func(fr *frame, args []value) value {
			return uint(reflectKind(reflectPayload(args[0]).t))
		},
		"(reflect.Value).IsValid": func(fr *frame, args []value) value {
			return reflectPayload(args[0]).t != nil
		},
		"(reflect.Value).String": func(fr *frame, args []value) value {
			p := reflectPayload(args[0])
			if reflectKind(p.t) == 24 {
				return p.v
			}
			return "<value>"
		},
		"(reflect.Value).IsNil": func(fr *frame, args []value) value {
			p := reflectPayload(args[0])
			switch x := p.v.(type) {
			case *value:
				return x == nil
			case *omap:
				return x == nil
			case []value:
				return x == nil
			case iface:
				return x.t == nil
			case *channel:
				return x == nil
			}
			return false
		},
		"(reflect.Value).Len": func(fr *frame, args []value) value {
			p := reflectPayload(args[0])
			switch x := p.v.(type) {
			case *omap:
				return x.len()
			case []value:
				return len(x)
			case string:
				return len(x)
			case array:
				return len(x)
			}
			panic(unsupported("reflect.Value.Len"))
		},
		"(reflect.Value).Interface": func(fr *frame, args []value) value {
			return reflectPayload(args[0])
		},
	}
}

var reflectExternals map[string]externalFn
