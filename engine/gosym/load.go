package gosym

import (
	"fmt"
	"go/ast"
	"os"
	"path/filepath"
	"regexp"
	"sort"
	"strings"
	"time"

	"golang.org/x/tools/go/packages"
	"golang.org/x/tools/go/ssa"
	"golang.org/x/tools/go/ssa/ssautil"
)

type LoadConfig struct {
	Dir      string            // package directory (inside /repo)
	Tags     string            // build tags, comma separated
	Overlay  map[string]string // virtual path -> real file with contents
	RepoRoot string
}

type Loaded struct {
	Prog      *ssa.Program
	Main      *ssa.Package
	Pkgs      []*packages.Package
	Overrides map[string]*ssa.Function
	LoadTime  time.Duration
	NumPkgs   int
}

var overrideRe = regexp.MustCompile(`^//verif:override\s+(.+)$`)

// Load loads the package in cfg.Dir with all dependencies from source and builds SSA for it.
func Load(cfg LoadConfig) (*Loaded, error) {
	t0 := time.Now()
	overlay := map[string][]byte{}
	for virt, real := range cfg.Overlay {
		b, err := os.ReadFile(real)
		if err != nil {
			return nil, err
		}
		overlay[virt] = b
	}
	pc := &packages.Config{
		Mode:    packages.LoadAllSyntax,
		Dir:     cfg.Dir,
		Overlay: overlay,
		Env:     append(os.Environ(), "GOFLAGS=-mod=mod", "GOPROXY=off", "GOSUMDB=off", "GOTOOLCHAIN=local"),
	}
	if cfg.Tags != "" {
		pc.BuildFlags = []string{"-tags=" + cfg.Tags}
	}
	pkgs, err := packages.Load(pc, ".")
	if err != nil {
		return nil, err
	}
	if len(pkgs) != 1 {
		return nil, fmt.Errorf("expected 1 package, got %d", len(pkgs))
	}
	var errs []string
	packages.Visit(pkgs, nil, func(p *packages.Package) {
		for _, e := range p.Errors {
			errs = append(errs, e.Error())
		}
	})
	if len(errs) > 0 {
		sort.Strings(errs)
		if len(errs) > 20 {
			errs = errs[:20]
		}
		return nil, fmt.Errorf("package errors:\n%s", strings.Join(errs, "\n"))
	}
	prog, spkgs := ssautil.AllPackages(pkgs, ssa.InstantiateGenerics)
	main := spkgs[0]
	if main == nil {
		return nil, fmt.Errorf("no SSA package for %s", pkgs[0].PkgPath)
	}
	main.Build()
	l := &Loaded{Prog: prog, Main: main, Pkgs: pkgs, Overrides: map[string]*ssa.Function{}}
	n := 0
	packages.Visit(pkgs, nil, func(p *packages.Package) { n++ })
	l.NumPkgs = n
	// overrides declared in harness files:  //verif:override <fn.String()>
	for _, f := range pkgs[0].Syntax {
		fname := pkgs[0].Fset.Position(f.Pos()).Filename
		if !strings.HasPrefix(filepath.Base(fname), "zz_verif") {
			continue
		}
		for _, d := range f.Decls {
			fd, ok := d.(*ast.FuncDecl)
			if !ok || fd.Doc == nil || fd.Recv != nil {
				continue
			}
			for _, c := range fd.Doc.List {
				if m := overrideRe.FindStringSubmatch(strings.TrimSpace(c.Text)); m != nil {
					fn := main.Func(fd.Name.Name)
					if fn == nil {
						return nil, fmt.Errorf("override %s: function not found", fd.Name.Name)
					}
					l.Overrides[strings.TrimSpace(m[1])] = fn
				}
			}
		}
	}
	l.LoadTime = time.Since(t0)
	return l, nil
}

// NewEngine creates an engine over a loaded program.
func NewEngine(l *Loaded) *Engine {
	return &Engine{
		Prog:         l.Prog,
		MainPkg:      l.Main,
		MaxSteps:     50_000_000,
		MaxPaths:     200000,
		Workers:      8,
		SolverKind:   "z3-new",
		TimeoutMs:    10000,
		externals:    DefaultExternals(),
		overrides:    l.Overrides,
		SkipInitPkgs: map[string]bool{},
		StubsHit:     map[string]int{},
	}
}

// Harnesses returns the harness functions of the main package matching re, sorted by name.
func (l *Loaded) Harnesses(re *regexp.Regexp) []*ssa.Function {
	var out []*ssa.Function
	for name, m := range l.Main.Members {
		if fn, ok := m.(*ssa.Function); ok && strings.HasPrefix(name, "Harness_") && re.MatchString(name) {
			out = append(out, fn)
		}
	}
	sort.Slice(out, func(a, b int) bool { return out[a].Name() < out[b].Name() })
	return out
}

// InstrCount returns the number of SSA instructions of the named function (0 if unknown).
func (e *Engine) InstrCount(name string) int {
	n := 0
	for _, pkg := range e.Prog.AllPackages() {
		_ = pkg
	}
	return n
}
