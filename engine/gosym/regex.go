package gosym

// Symbolic regular-expression matching: a leftmost-first backtracking VM over regexp/syntax.Prog whose
// rune tests on symbolic input bytes become solver-decided branches. Used when a string with symbolic bytes
// reaches (*regexp.Regexp).MatchString/FindString/FindStringSubmatch; concrete inputs still go to the host
// regexp. The pattern itself is always concrete (compiled by the host).

import (
	"go/types"
	"regexp"
	"regexp/syntax"
	"unicode"
)

type rxVM struct {
	fr      *frame
	prog    *syntax.Prog
	b       []value
	visited map[[2]int]bool
	caps    []int
	steps   int
}

func (fr *frame) rxProg(re *regexp.Regexp) *syntax.Prog {
	fr.i.eng.noteStub("regexp (symbolic backtracking VM)")
	rx, err := syntax.Parse(re.String(), syntax.Perl)
	if err != nil {
		panic(unsupported("regexp: cannot re-parse pattern " + re.String()))
	}
	ncap := rx.MaxCap()
	prog, err := syntax.Compile(rx.Simplify())
	if err != nil {
		panic(unsupported("regexp: cannot compile pattern " + re.String()))
	}
	_ = ncap
	return prog
}

// rxFind returns the capture vector (2*(ncap+1) offsets, -1 = unset) of the leftmost-first match or nil.
func (fr *frame) rxFind(re *regexp.Regexp, s value) []int {
	prog := fr.rxProg(re)
	b := strBytes(s)
	ncap := 2 * (re.NumSubexp() + 1)
	for start := 0; start <= len(b); {
		vm := &rxVM{fr: fr, prog: prog, b: b, visited: map[[2]int]bool{}, caps: make([]int, ncap)}
		for k := range vm.caps {
			vm.caps[k] = -1
		}
		if end, ok := vm.run(prog.Start, start); ok {
			vm.caps[0], vm.caps[1] = start, end
			return vm.caps
		}
		if start == len(b) {
			break
		}
		// advance by one rune
		it := &symStringIter{fr: fr, b: b, i: start}
		it.next()
		start = it.i
	}
	return nil
}

func (vm *rxVM) runeAt(pos int) (value, int) {
	it := &symStringIter{fr: vm.fr, b: vm.b, i: pos}
	t := it.next()
	return t[2], it.i - pos
}

// isWordAt: is the byte before/at pos an ASCII word character (Go's \b is ASCII-only)
func (vm *rxVM) wordByte(pos int) bool {
	if pos < 0 || pos >= len(vm.b) {
		return false
	}
	fr := vm.fr
	tb := fr.i.tb
	switch c := vm.b[pos].(type) {
	case uint8:
		return c == '_' || c >= '0' && c <= '9' || c >= 'a' && c <= 'z' || c >= 'A' && c <= 'Z'
	default:
		x := fr.i.termOf(c)
		in := func(lo, hi byte) *Term {
			return tb.And(tb.Cmp(OpBvUle, tb.Const(uint64(lo), 8), x), tb.Cmp(OpBvUle, x, tb.Const(uint64(hi), 8)))
		}
		cond := tb.Or(tb.Or(in('0', '9'), in('a', 'z')), tb.Or(in('A', 'Z'), tb.Eq(x, tb.Const('_', 8))))
		return fr.branch(cond, "rx-word")
	}
}

func (vm *rxVM) byteIs(pos int, c byte) bool {
	if pos < 0 || pos >= len(vm.b) {
		return false
	}
	switch x := vm.b[pos].(type) {
	case uint8:
		return x == c
	default:
		tb := vm.fr.i.tb
		return vm.fr.branch(tb.Eq(vm.fr.i.termOf(x), tb.Const(uint64(c), 8)), "rx-byte")
	}
}

func (vm *rxVM) matchRune(inst *syntax.Inst, r value) bool {
	if c, ok := r.(int32); ok {
		switch inst.Op {
		case syntax.InstRuneAny:
			return true
		case syntax.InstRuneAnyNotNL:
			return c != '\n'
		}
		return inst.MatchRune(c)
	}
	fr := vm.fr
	tb := fr.i.tb
	x := fr.i.termOf(r)
	w := x.W
	k := func(v rune) *Term { return tb.Const(uint64(uint32(v)), w) }
	var cond *Term
	switch inst.Op {
	case syntax.InstRuneAny:
		return true
	case syntax.InstRuneAnyNotNL:
		cond = tb.Not(tb.Eq(x, k('\n')))
	default:
		rs := inst.Rune
		if len(rs) == 1 {
			// single rune, possibly case-folded
			cond = tb.Eq(x, k(rs[0]))
			if syntax.Flags(inst.Arg)&syntax.FoldCase != 0 {
				for f := unicode.SimpleFold(rs[0]); f != rs[0]; f = unicode.SimpleFold(f) {
					cond = tb.Or(cond, tb.Eq(x, k(f)))
				}
			}
		} else {
			cond = tb.False()
			for j := 0; j+1 < len(rs); j += 2 {
				lo, hi := rs[j], rs[j+1]
				var c *Term
				if lo == hi {
					c = tb.Eq(x, k(lo))
				} else {
					// runes are non-negative: unsigned comparison is exact
					c = tb.And(tb.Cmp(OpBvUle, k(lo), x), tb.Cmp(OpBvUle, x, k(hi)))
				}
				cond = tb.Or(cond, c)
			}
		}
	}
	return fr.branch(cond, "rx-rune")
}

func (vm *rxVM) run(pc, pos int) (int, bool) {
	for {
		vm.steps++
		if vm.steps > 200000 {
			panic(unsupported("regexp: step budget of the symbolic matcher exhausted"))
		}
		key := [2]int{pc, pos}
		inst := &vm.prog.Inst[pc]
		switch inst.Op {
		case syntax.InstFail:
			return 0, false
		case syntax.InstMatch:
			return pos, true
		case syntax.InstNop:
			pc = int(inst.Out)
		case syntax.InstCapture:
			if int(inst.Arg) < len(vm.caps) {
				old := vm.caps[inst.Arg]
				vm.caps[inst.Arg] = pos
				if end, ok := vm.run(int(inst.Out), pos); ok {
					return end, true
				}
				vm.caps[inst.Arg] = old
				return 0, false
			}
			pc = int(inst.Out)
		case syntax.InstAlt, syntax.InstAltMatch:
			if vm.visited[key] {
				return 0, false
			}
			vm.visited[key] = true
			if end, ok := vm.run(int(inst.Out), pos); ok {
				return end, true
			}
			pc = int(inst.Arg)
		case syntax.InstEmptyWidth:
			op := syntax.EmptyOp(inst.Arg)
			ok := true
			if op&syntax.EmptyBeginText != 0 && pos != 0 {
				ok = false
			}
			if ok && op&syntax.EmptyEndText != 0 && pos != len(vm.b) {
				ok = false
			}
			if ok && op&syntax.EmptyBeginLine != 0 && pos != 0 && !vm.byteIs(pos-1, '\n') {
				ok = false
			}
			if ok && op&syntax.EmptyEndLine != 0 && pos != len(vm.b) && !vm.byteIs(pos, '\n') {
				ok = false
			}
			if ok && op&(syntax.EmptyWordBoundary|syntax.EmptyNoWordBoundary) != 0 {
				boundary := vm.wordByte(pos-1) != vm.wordByte(pos)
				if op&syntax.EmptyWordBoundary != 0 && !boundary {
					ok = false
				}
				if op&syntax.EmptyNoWordBoundary != 0 && boundary {
					ok = false
				}
			}
			if !ok {
				return 0, false
			}
			pc = int(inst.Out)
		case syntax.InstRune, syntax.InstRune1, syntax.InstRuneAny, syntax.InstRuneAnyNotNL:
			if pos >= len(vm.b) {
				return 0, false
			}
			r, n := vm.runeAt(pos)
			if !vm.matchRune(inst, r) {
				return 0, false
			}
			pc, pos = int(inst.Out), pos+n
		default:
			panic(unsupported("regexp: instruction " + inst.Op.String()))
		}
	}
}

func (fr *frame) rxMatchString(re *regexp.Regexp, s value) value {
	return fr.rxFind(re, s) != nil
}

func (fr *frame) rxFindString(re *regexp.Regexp, s value) value {
	c := fr.rxFind(re, s)
	if c == nil {
		return ""
	}
	return mkString(strBytes(s)[c[0]:c[1]])
}

func (fr *frame) rxFindStringSubmatch(re *regexp.Regexp, s value) value {
	c := fr.rxFind(re, s)
	if c == nil {
		return []value(nil)
	}
	b := strBytes(s)
	out := make([]value, len(c)/2)
	for k := range out {
		if c[2*k] >= 0 && c[2*k+1] >= 0 {
			out[k] = mkString(b[c[2*k]:c[2*k+1]])
		} else {
			out[k] = ""
		}
	}
	return out
}

var _ = types.Int32
