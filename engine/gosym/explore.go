package gosym

// Path exploration: re-execution DFS driven by decision scripts, one solver pipe per worker.

import (
	"fmt"
	"go/token"
	"go/types"
	"os"
	"os/exec"
	"runtime/debug"
	"sort"
	"strings"
	"sync"
	"time"

	"golang.org/x/tools/go/ssa"
)

type externalFn func(fr *frame, args []value) value

// Engine is shared, read-only configuration for all paths of all harnesses.
type Engine struct {
	Prog             *ssa.Program
	MainPkg          *ssa.Package
	MaxSteps         int64
	MaxPaths         int
	Workers          int
	SolverKind       string
	TimeoutMs        int
	NoIfConvert      bool
	Trace            bool
	CrossCheck       bool // discharge assertion queries on cvc5 too
	NoModelGuide     bool
	NoFallback       bool
	FallbackTimeoutS int
	Deadline         time.Time
	HarnessBudget    time.Duration
	externals        map[string]externalFn
	overrides        map[string]*ssa.Function // fn.String() -> harness function
	SkipInitPkgs     map[string]bool
	mu               sync.Mutex
	StubsHit         map[string]int
	pdomCache        map[*ssa.Function]*pdomInfo
}

func (e *Engine) skipInit(pkg *ssa.Package) bool {
	return e.SkipInitPkgs[pkg.Pkg.Path()]
}

func (e *Engine) noteStub(name string) {
	e.mu.Lock()
	e.StubsHit[name]++
	e.mu.Unlock()
}

type nondetRec struct {
	Name string
	Kind string // "int" | "choose" | "len" | "uf"
	W    int
	t    *Term  // nil for concrete decisions
	val  uint64 // for concrete decisions
}

type PathStats struct {
	IfConverted int
	Branches    int
	Queries     int
}

type Violation struct {
	Harness string
	Label   string
	Pos     string
	Inputs  []ReplayValue
	Detail  string
	Script  []int
	Count   int
}

type ReplayValue struct {
	Name  string `json:"name"`
	Kind  string `json:"kind"`
	Bits  int    `json:"bits"`
	Value uint64 `json:"value"`
}

type decision struct {
	kind string
	val  int
}

type pathState struct {
	h         *harnessRun
	script    []int
	pos       int
	decisions []int
	pc        []*Term
	flushed   int
	solver    *Solver
	em        *Emitter
	nondets   []nondetRec
	newWork   [][]int
	kinds     []byte // kind of each decision taken (b=branch, c=choose, v=value)
	skinds    []byte // kinds of the scripted prefix
	stats     PathStats
	noBranch  int
	asserts   int // obligations checked on this path (beyond the replayed prefix)
	reached   map[string]bool
	viol      []Violation
	incon     []string
	model     map[string]uint64 // a model of pc[:modelPC], or nil
	modelPC   int
}

func (p *pathState) replaying() bool { return p.pos < len(p.script) }

// note records the kind of the decision just appended and checks it against the scripted prefix.
func (p *pathState) note(kind byte) {
	k := len(p.kinds)
	if k < len(p.skinds) && p.skinds[k] != kind {
		panic(pathAbort{"engine", fmt.Sprintf("replay divergence at decision %d: scripted %c, executed %c", k, p.skinds[k], kind)})
	}
	p.kinds = append(p.kinds, kind)
}

// alt builds an alternative script (decisions so far + d) with its kinds, encoded as one []int:
// the kinds are appended after a -1<<62 marker.
func (p *pathState) alt(d int, kind byte) []int {
	a := append(append([]int{}, p.decisions...), d)
	a = append(a, scriptKindMarker)
	for _, k := range p.kinds {
		a = append(a, int(k))
	}
	a = append(a, int(kind))
	return a
}

const scriptKindMarker = -1 << 62

func splitScript(s []int) ([]int, []byte) {
	for i, v := range s {
		if v == scriptKindMarker {
			ks := make([]byte, len(s)-i-1)
			for j, k := range s[i+1:] {
				ks[j] = byte(k)
			}
			return s[:i], ks
		}
	}
	return s, nil
}

func (p *pathState) flush() {
	for _, c := range p.pc[p.flushed:] {
		p.em.Define(c)
		fmt.Fprintf(&p.em.Out, "(assert %s)\n", ref(c))
	}
	p.flushed = len(p.pc)
}

// check asks whether pc ∧ extra is satisfiable. If wantModel, values of all nondet records are fetched.
func (p *pathState) check(extra *Term, wantModel bool) (Verdict, map[string]uint64, map[int]uint64) {
	p.flush()
	if extra != nil {
		p.em.Define(extra)
	}
	var ufTerms []*Term
	if wantModel {
		for _, v := range p.h_vars() {
			p.em.Define(v)
		}
		for _, n := range p.nondets {
			if n.t != nil && n.Kind == "uf" {
				p.em.Define(n.t)
				ufTerms = append(ufTerms, n.t)
			}
		}
	}
	p.solver.Send(p.em.Out.String())
	p.em.Out.Reset()
	p.solver.Send("(push 1)\n")
	if extra != nil {
		p.solver.Send("(assert " + ref(extra) + ")\n")
	}
	tq := time.Now()
	v := p.solver.CheckSat()
	if slowMs > 0 && time.Since(tq) > time.Duration(slowMs)*time.Millisecond {
		fmt.Fprintf(os.Stderr, "SLOW %v %s extra=%s\n", time.Since(tq), v, describeTerm(extra, 3))
	}
	p.stats.Queries++
	if v == Unknown && !wantModel {
		if fv, who := p.fallback(extra); fv != Unknown {
			v = fv
			p.h.noteFallback(who)
		}
	}
	var model map[string]uint64
	var ufVals map[int]uint64
	if v == Sat && wantModel {
		var vars []*Term
		for _, n := range p.nondets {
			if n.t != nil && n.t.Op == OpVar {
				vars = append(vars, n.t)
			}
		}
		m, err := p.solver.GetValues(vars)
		if err != nil {
			p.incon = append(p.incon, "get-value failed: "+err.Error())
		}
		model = m
		if len(ufTerms) > 0 {
			ufVals = make(map[int]uint64)
			for _, u := range ufTerms {
				mm, err := p.solver.getTermValue(u)
				if err == nil {
					ufVals[u.id] = mm
				}
			}
		}
	}
	p.solver.Send("(pop 1)\n")
	return v, model, ufVals
}

// modelValue returns a value of t in some model of the current path condition.
func (p *pathState) modelValue(i *interpreter, t *Term) (uint64, bool) {
	p.flush()
	p.em.Define(t)
	p.solver.Send(p.em.Out.String())
	p.em.Out.Reset()
	if p.solver.CheckSat() != Sat {
		return 0, false
	}
	p.stats.Queries++
	v, err := p.solver.getTermValue(t)
	if err != nil {
		return 0, false
	}
	return v, true
}

// scriptedModelValue is modelValue made deterministic under re-execution: the value picked the
// first time is stored in the decision script and reused when the prefix is replayed.
func (p *pathState) scriptedModelValue(i *interpreter, t *Term) (uint64, bool) {
	if p.replaying() {
		v := p.script[p.pos]
		p.pos++
		p.decisions = append(p.decisions, v)
		p.note('v')
		return uint64(v), true
	}
	v, ok := p.modelValue(i, t)
	if !ok {
		return 0, false
	}
	p.decisions = append(p.decisions, int(v))
	p.note('v')
	return v, true
}

func (s *Solver) getTermValue(t *Term) (uint64, error) {
	if t.IsConst() {
		return t.K, nil
	}
	// wrap in a fake var-like lookup: parse "((tN #x..))"
	s.Send("(get-value (" + ref(t) + "))\n")
	line, ok := s.readLine()
	if !ok {
		return 0, fmt.Errorf("solver died")
	}
	for strings.Count(line, "(") > strings.Count(line, ")") {
		more, ok := s.readLine()
		if !ok {
			return 0, fmt.Errorf("solver died")
		}
		line += " " + more
	}
	if strings.HasPrefix(line, "(error") {
		s.Errors = append(s.Errors, line)
		return 0, fmt.Errorf("%s", line)
	}
	// find last token before "))"
	line = strings.TrimSuffix(strings.TrimSpace(line), "))")
	idx := strings.LastIndexAny(line, " ")
	tok := strings.TrimSpace(line[idx+1:])
	if strings.HasSuffix(line, ")") { // (_ bvN w)
		f := strings.Fields(line)
		for _, x := range f {
			if strings.HasPrefix(x, "bv") {
				var v uint64
				fmt.Sscanf(x[2:], "%d", &v)
				return v, nil
			}
		}
	}
	var v uint64
	switch {
	case strings.HasPrefix(tok, "#x"):
		fmt.Sscanf(tok[2:], "%x", &v)
	case strings.HasPrefix(tok, "#b"):
		fmt.Sscanf(tok[2:], "%b", &v)
	case tok == "true":
		v = 1
	case tok == "false":
		v = 0
	default:
		return 0, fmt.Errorf("cannot parse value %q", line)
	}
	return v, nil
}

// branch decides a symbolic condition; returns true if the true side is followed on this path.
func (fr *frame) branch(c *Term, why string) bool {
	if c.IsConst() {
		return c.K != 0
	}
	i := fr.i
	p := i.p
	if p.noBranch > 0 {
		panic(pathAbort{"speculate", "branch during speculation"})
	}
	p.stats.Branches++
	if !p.replaying() && forkStats {
		p.h.mu.Lock()
		if p.h.res.ForkSites == nil {
			p.h.res.ForkSites = map[string]int{}
		}
		p.h.res.ForkSites[fr.fn.String()+" ("+why+")"]++
		p.h.mu.Unlock()
	}
	if !i.eng.Deadline.IsZero() && time.Now().After(i.eng.Deadline) {
		panic(pathAbort{"budget", "wall-clock deadline reached"})
	}
	if p.replaying() {
		d := p.script[p.pos]
		p.pos++
		p.decisions = append(p.decisions, d)
		p.note('b')
		if d == 1 {
			p.pc = append(p.pc, c)
		} else {
			p.pc = append(p.pc, i.tb.Not(c))
		}
		return d == 1
	}
	if len(p.decisions) >= 100000 {
		panic(pathAbort{"unwind", "more than 100000 decisions on one path"})
	}
	// model-guided: follow the side the current model of pc satisfies, query only the other side
	if side, ok := p.modelSide(c); ok {
		var other *Term
		if side {
			other = i.tb.Not(c)
		} else {
			other = c
		}
		v, _, _ := p.check(other, false)
		if v == Unknown {
			p.incon = append(p.incon, fmt.Sprintf("solver unknown on branch (%s) in %s", why, fr.fn))
		}
		d := 0
		if side {
			d = 1
		}
		if v != Unsat {
			p.newWork = append(p.newWork, p.alt(1-d, 'b'))
		}
		p.decisions = append(p.decisions, d)
		p.note('b')
		if side {
			p.pc = append(p.pc, c)
		} else {
			p.pc = append(p.pc, i.tb.Not(c))
		}
		return side
	}
	vT, _, _ := p.check(c, false)
	switch vT {
	case Unsat:
		p.decisions = append(p.decisions, 0)
		p.note('b')
		p.pc = append(p.pc, i.tb.Not(c))
		return false
	case Unknown:
		p.incon = append(p.incon, fmt.Sprintf("solver unknown on branch (%s) in %s", why, fr.fn))
	}
	vF, _, _ := p.check(i.tb.Not(c), false)
	if vF == Unknown {
		p.incon = append(p.incon, fmt.Sprintf("solver unknown on branch (%s) in %s", why, fr.fn))
	}
	if vF != Unsat {
		p.newWork = append(p.newWork, p.alt(0, 'b'))
	}
	p.decisions = append(p.decisions, 1)
	p.note('b')
	p.pc = append(p.pc, c)
	return true
}

// modelSide evaluates c under a model of the current path condition (fetching one if needed).
// ok=false if no model is available (UF terms, solver unknown).
func (p *pathState) modelSide(c *Term) (side bool, ok bool) {
	if p.h.eng.NoModelGuide {
		return false, false
	}
	defer func() {
		if r := recover(); r != nil {
			ok = false
		}
	}()
	// validate the cached model against constraints added since it was fetched
	if p.model != nil {
		memo := map[int]uint64{}
		for _, t := range p.pc[p.modelPC:] {
			if Eval(t, p.model, memo) == 0 {
				p.model = nil
				break
			}
		}
		if p.model != nil {
			p.modelPC = len(p.pc)
		}
	}
	if p.model == nil {
		p.flush()
		vars := p.h_vars()
		for _, v := range vars {
			p.em.Define(v)
		}
		p.solver.Send(p.em.Out.String())
		p.em.Out.Reset()
		v := p.solver.CheckSat()
		p.stats.Queries++
		if v != Sat {
			return false, false
		}
		m, err := p.solver.GetValues(vars)
		if err != nil {
			return false, false
		}
		p.model = m
		p.modelPC = len(p.pc)
	}
	return Eval(c, p.model, map[int]uint64{}) != 0, true
}

func (p *pathState) h_vars() []*Term {
	var vars []*Term
	for _, n := range p.nondets {
		if n.t != nil && n.t.Op == OpVar {
			vars = append(vars, n.t)
		}
	}
	return vars
}

// choose forks into n concrete alternatives (no solver involved).
func (fr *frame) choose(name string, n int) int {
	p := fr.i.p
	if n <= 0 {
		panic(pathAbort{"assume", "choose(0)"})
	}
	var d int
	if p.replaying() {
		d = p.script[p.pos]
		p.pos++
	} else {
		for k := n - 1; k >= 1; k-- {
			p.newWork = append(p.newWork, p.alt(k, 'c'))
		}
		d = 0
	}
	p.decisions = append(p.decisions, d)
	p.note('c')
	return d
}

func (i *interpreter) freshVar(name string, w int, kind string) *Term {
	p := i.p
	nm := fmt.Sprintf("%s#%d", name, len(p.nondets))
	t := i.tb.Var(nm, w)
	p.nondets = append(p.nondets, nondetRec{Name: nm, Kind: kind, W: w, t: t})
	return t
}

func (fr *frame) position() string {
	// nearest caller frame with position info
	for f := fr; f != nil; f = f.caller {
		if f.fn != nil && f.fn.Pos() != token.NoPos {
			return f.fn.String()
		}
	}
	return ""
}

// assertCond implements verifAssert.
func (fr *frame) assertCond(cond value, label string) {
	i := fr.i
	p := i.p
	if p.replaying() {
		// already checked by the path that discovered this prefix
		if c, ok := cond.(symBool); ok {
			p.pc = append(p.pc, c.t)
		} else if cond == false {
			panic(pathAbort{"done", "assertion failed in replayed prefix"})
		}
		return
	}
	p.asserts++
	p.h.noteObligation(label)
	switch c := cond.(type) {
	case bool:
		if c {
			p.h.noteDischarged(label, false)
			return
		}
		_, model, ufv := p.check(nil, true)
		p.recordViolation(fr, label, model, ufv, "assertion is false on this path")
		panic(pathAbort{"done", "assertion failed"})
	case symBool:
		v, model, ufv := p.check(i.tb.Not(c.t), true)
		switch v {
		case Unsat:
			p.h.noteDischarged(label, true)
			p.pc = append(p.pc, c.t)
			return
		case Unknown:
			p.incon = append(p.incon, "solver unknown on assertion "+label)
			p.pc = append(p.pc, c.t)
			return
		}
		p.recordViolation(fr, label, model, ufv, "")
		// continue under the assumption that the assertion holds, if that is feasible
		v2, _, _ := p.check(c.t, false)
		if v2 == Unsat {
			panic(pathAbort{"done", "assertion failed on every continuation"})
		}
		p.pc = append(p.pc, c.t)
	default:
		panic(fmt.Sprintf("verifAssert on %T", cond))
	}
}

func (fr *frame) assumeCond(cond value) {
	i := fr.i
	p := i.p
	switch c := cond.(type) {
	case bool:
		if !c {
			panic(pathAbort{"assume", "assumption false"})
		}
	case symBool:
		if p.replaying() {
			p.pc = append(p.pc, c.t)
			return
		}
		v, _, _ := p.check(c.t, false)
		if v == Unsat {
			panic(pathAbort{"assume", "assumption infeasible"})
		}
		if v == Unknown {
			p.incon = append(p.incon, "solver unknown on assumption")
		}
		p.pc = append(p.pc, c.t)
	default:
		panic(fmt.Sprintf("verifAssume on %T", cond))
	}
}

func (p *pathState) replayValues(model map[string]uint64, ufv map[int]uint64) []ReplayValue {
	var out []ReplayValue
	for _, n := range p.nondets {
		if n.Kind == "env" {
			continue // engine-internal environment nondeterminism: not part of the native replay vector
		}
		rv := ReplayValue{Name: n.Name, Kind: n.Kind, Bits: n.W}
		switch {
		case n.t == nil:
			rv.Value = n.val
		case n.t.Op == OpVar:
			rv.Value = model[n.t.Name]
		case n.Kind == "uf":
			rv.Value = ufv[n.t.id]
		}
		out = append(out, rv)
	}
	return out
}

func (p *pathState) recordViolation(fr *frame, label string, model map[string]uint64, ufv map[int]uint64, detail string) {
	v := Violation{
		Harness: p.h.name,
		Label:   label,
		Pos:     fr.position(),
		Inputs:  p.replayValues(model, ufv),
		Detail:  detail,
		Script:  append([]int{}, p.decisions...),
	}
	p.viol = append(p.viol, v)
}

// ---------------------------------------------------------------------------
// running a harness

type HarnessResult struct {
	Name            string
	Paths           int
	PathsCompleted  int
	PathsAssumeCut  int
	PathsBlocked    int
	Obligations     map[string]int // label -> times checked
	Discharged      map[string]int
	DischargedBySMT int
	Reached         map[string]int
	Violations      []Violation
	Inconclusive    []string
	Queries         int
	SolverTime      time.Duration
	Branches        int
	IfConverted     int
	Steps           int64
	MaxDecisions    int
	Funcs           map[string]bool
	Stubs           map[string]int
	Wall            time.Duration
	SampleInputs    [][]ReplayValue
	Fallbacks       map[string]int
	ForkSites       map[string]int
}

type harnessRun struct {
	eng          *Engine
	fn           *ssa.Function
	name         string
	mu           sync.Mutex
	res          *HarnessResult
	samplesTaken int
}

func (h *harnessRun) noteObligation(label string) {
	h.mu.Lock()
	h.res.Obligations[label]++
	h.mu.Unlock()
}
func (h *harnessRun) noteDischarged(label string, smt bool) {
	h.mu.Lock()
	h.res.Discharged[label]++
	if smt {
		h.res.DischargedBySMT++
	}
	h.mu.Unlock()
}

// RunHarness explores all paths of harness function fn.
func (e *Engine) RunHarness(fn *ssa.Function) *HarnessResult {
	t0 := time.Now()
	if e.HarnessBudget > 0 {
		e.Deadline = t0.Add(e.HarnessBudget)
	}
	h := &harnessRun{eng: e, fn: fn, name: fn.Name()}
	h.res = &HarnessResult{Name: fn.Name(), Obligations: map[string]int{}, Discharged: map[string]int{},
		Reached: map[string]int{}, Funcs: map[string]bool{}, Stubs: map[string]int{}}

	var (
		mu      sync.Mutex
		cond    = sync.NewCond(&mu)
		work    = [][]int{{}}
		active  = 0
		started = 0
		abort   = false
	)
	workers := e.Workers
	if workers < 1 {
		workers = 1
	}
	var wg sync.WaitGroup
	for w := 0; w < workers; w++ {
		wg.Add(1)
		go func() {
			defer wg.Done()
			var solver *Solver
			defer func() {
				if solver != nil {
					h.mu.Lock()
					h.res.Queries += solver.Queries
					h.res.SolverTime += solver.Time
					for _, er := range solver.Errors {
						h.res.Inconclusive = append(h.res.Inconclusive, "solver: "+er)
					}
					h.mu.Unlock()
					solver.Close()
				}
			}()
			for {
				mu.Lock()
				for len(work) == 0 && active > 0 && !abort {
					cond.Wait()
				}
				if abort || (len(work) == 0 && active == 0) {
					mu.Unlock()
					cond.Broadcast()
					return
				}
				script := work[len(work)-1]
				work = work[:len(work)-1]
				active++
				started++
				if !e.Deadline.IsZero() && time.Now().After(e.Deadline) {
					abort = true
					active--
					mu.Unlock()
					h.mu.Lock()
					h.res.Inconclusive = append(h.res.Inconclusive, fmt.Sprintf("wall-clock budget %v exhausted with %d paths pending", e.HarnessBudget, len(work)+1))
					h.mu.Unlock()
					cond.Broadcast()
					return
				}
				if started > e.MaxPaths {
					abort = true
					active--
					mu.Unlock()
					h.mu.Lock()
					h.res.Inconclusive = append(h.res.Inconclusive, fmt.Sprintf("path budget %d exhausted", e.MaxPaths))
					h.mu.Unlock()
					cond.Broadcast()
					return
				}
				mu.Unlock()

				if solver == nil || solver.dead {
					var err error
					solver, err = StartSolver(e.SolverKind, e.TimeoutMs)
					if err != nil {
						panic(err)
					}
				}
				newWork := h.runPath(script, solver)

				mu.Lock()
				work = append(work, newWork...)
				active--
				mu.Unlock()
				cond.Broadcast()
			}
		}()
	}
	wg.Wait()
	h.res.Wall = time.Since(t0)
	// dedup inconclusive
	sort.Strings(h.res.Inconclusive)
	var ded []string
	for k, s := range h.res.Inconclusive {
		if k == 0 || s != h.res.Inconclusive[k-1] {
			ded = append(ded, s)
		}
	}
	h.res.Inconclusive = ded
	return h.res
}

func (h *harnessRun) runPath(script []int, solver *Solver) (newWork [][]int) {
	e := h.eng
	i := &interpreter{
		eng:          e,
		prog:         e.Prog,
		globals:      make(map[*ssa.Global]*value),
		initDone:     make(map[*ssa.Package]bool),
		tb:           NewTB(),
		locks:        make(map[*value]int),
		onceDone:     make(map[*value]bool),
		timers:       make(map[*value]bool),
		guardCells:   make(map[*value]*value),
		guardMaps:    make(map[*omap]*value),
		syncMaps:     make(map[*value]*omap),
		atomicValues: make(map[*value]value),
		wg:           make(map[*value]int),
		built:        make(map[*ssa.Package]bool),
		natives:      make(map[string]value),
		trace:        e.Trace,
		funcsSeen:    make(map[*ssa.Function]bool),
		clockNs:      1700000000 * 1e9,
	}
	if rt := e.Prog.ImportedPackage("runtime"); rt != nil {
		i.runtimeErrorString = rt.Type("errorString").Object().Type()
	}
	script, skinds := splitScript(script)
	p := &pathState{h: h, script: script, skinds: skinds, solver: solver, em: NewEmitter(), reached: map[string]bool{}}
	i.p = p
	solver.Send("(push 1)\n")
	status := "completed"
	var detail string
	func() {
		defer func() {
			if r := recover(); r != nil {
				switch r := r.(type) {
				case pathAbort:
					status, detail = r.kind, r.reason
				case targetPanic:
					status = "panic"
					detail = panicString(i, r.v)
				default:
					status = "engine"
					detail = fmt.Sprintf("%v\n%s", r, debug.Stack())
				}
			}
		}()
		callSSA(i, nil, token.NoPos, h.fn, nil, nil)
	}()
	if status == "panic" && !p.replaying() {
		// an unrecovered Go panic in the code under test
		func() {
			defer func() { recover() }()
			p.asserts++
			h.noteObligation("no-panic")
			_, model, ufv := p.check(nil, true)
			v := Violation{Harness: h.name, Label: "no-panic", Inputs: p.replayValues(model, ufv), Detail: detail, Script: append([]int{}, p.decisions...)}
			p.viol = append(p.viol, v)
		}()
	}
	var sample []ReplayValue
	if status == "completed" && len(p.nondets) > 0 {
		h.mu.Lock()
		need := h.samplesTaken < 3
		if need {
			h.samplesTaken++
		}
		h.mu.Unlock()
		if need {
			func() {
				defer func() { recover() }()
				if v, model, ufv := p.check(nil, true); v == Sat {
					sample = p.replayValues(model, ufv)
				}
			}()
		}
	}
	solver.Send("(pop 1)\n")

	h.mu.Lock()
	defer h.mu.Unlock()
	res := h.res
	if sample != nil {
		res.SampleInputs = append(res.SampleInputs, sample)
	}
	res.Paths++
	switch status {
	case "completed", "done", "panic", "crash":
		res.PathsCompleted++
		if status == "completed" {
			h.noteDischargedLocked("no-panic")
		}
	case "assume":
		res.PathsAssumeCut++
	case "blocked":
		res.PathsBlocked++
		res.Inconclusive = append(res.Inconclusive, "path blocked: "+detail)
	case "speculate":
		res.Inconclusive = append(res.Inconclusive, "internal: speculation abort escaped")
	default:
		first := detail
		if status != "engine" {
			if k := strings.IndexByte(first, '\n'); k > 0 {
				first = first[:k]
			}
		}
		res.Inconclusive = append(res.Inconclusive, status+": "+first)
	}
	res.Inconclusive = append(res.Inconclusive, p.incon...)
	for l := range p.reached {
		res.Reached[l]++
	}
	res.Violations = append(res.Violations, p.viol...)
	res.Branches += p.stats.Branches
	res.IfConverted += p.stats.IfConverted
	res.Steps += i.steps
	if len(p.decisions) > res.MaxDecisions {
		res.MaxDecisions = len(p.decisions)
	}
	for f := range i.funcsSeen {
		res.Funcs[f.String()] = true
	}
	if e.Trace {
		fmt.Fprintf(os.Stderr, "## path %v -> %s %s\n", script, status, detail)
	}
	return p.newWork
}

func (h *harnessRun) noteDischargedLocked(label string) {
	h.res.Obligations[label]++
	h.res.Discharged[label]++
}

func panicString(i *interpreter, v value) string {
	switch v := v.(type) {
	case string:
		return v
	case iface:
		if s, ok := v.v.(string); ok {
			return s
		}
		if ss, ok := v.v.(symString); ok {
			b := make([]byte, len(ss.b))
			for k, c := range ss.b {
				if cc, ok := c.(uint8); ok {
					b[k] = cc
				} else {
					b[k] = '?'
				}
			}
			return string(b)
		}
		if _, isBasic := v.t.Underlying().(*types.Basic); v.t != nil && !isBasic {
			// error or Stringer?
			for _, mname := range []string{"Error", "String"} {
				sel := i.prog.MethodSets.MethodSet(v.t).Lookup(nil, mname)
				if sel == nil {
					continue
				}
				if m := i.prog.MethodValue(sel); m != nil {
					var out string
					func() {
						defer func() { recover() }()
						r := callSSA(i, nil, token.NoPos, m, []value{v.v}, nil)
						if s, ok := r.(string); ok {
							out = s
						}
					}()
					if out != "" {
						return out
					}
				}
			}
		}
	}
	return toString(v)
}

var _ = types.Int

var slowMs = func() int {
	var v int
	fmt.Sscanf(os.Getenv("GOSYM_SLOW"), "%d", &v)
	return v
}()

func describeTerm(t *Term, depth int) string {
	if t == nil {
		return "<pc>"
	}
	if t.Op == OpConst || t.Op == OpVar || depth == 0 {
		if t.Op == OpConst || t.Op == OpVar {
			return ref(t)
		}
		return "…"
	}
	s := "(" + opNames[t.Op]
	if t.Op == OpExtract {
		s = fmt.Sprintf("(extract[%d:%d]", t.K, t.K2)
	}
	if t.Op == OpUF {
		s = "(" + t.Name
	}
	for _, a := range t.A {
		s += " " + describeTerm(a, depth-1)
	}
	return s + ")"
}

// standaloneScript renders pc ∧ extra as a self-contained SMT-LIB script.
func (p *pathState) standaloneScript(extra *Term) string {
	em := NewEmitter()
	for _, c := range p.pc {
		em.Define(c)
		fmt.Fprintf(&em.Out, "(assert %s)\n", ref(c))
	}
	if extra != nil {
		em.Define(extra)
		fmt.Fprintf(&em.Out, "(assert %s)\n", ref(extra))
	}
	em.Out.WriteString("(check-sat)\n")
	return em.Out.String()
}

// fallback re-runs an inconclusive query on the other installed solvers (fresh processes).
func (p *pathState) fallback(extra *Term) (Verdict, string) {
	if p.h.eng.NoFallback {
		return Unknown, ""
	}
	script := p.standaloneScript(extra)
	f, err := os.CreateTemp("", "gosym-q-*.smt2")
	if err != nil {
		return Unknown, ""
	}
	defer os.Remove(f.Name())
	f.WriteString("(set-logic ALL)\n" + script)
	f.Close()
	tmo := p.h.eng.FallbackTimeoutS
	if tmo <= 0 {
		tmo = 60
	}
	tries := [][]string{
		{"cvc5", "--solve-bv-as-int=sum", fmt.Sprintf("--tlimit=%d", tmo*1000), f.Name()},
		{"z3", "-smt2", fmt.Sprintf("-T:%d", tmo), f.Name()},
		{"cvc5", fmt.Sprintf("--tlimit=%d", tmo*1000), f.Name()},
	}
	for _, t := range tries {
		out, _ := exec.Command(t[0], t[1:]...).CombinedOutput()
		s := strings.TrimSpace(string(out))
		if strings.Contains(s, "(error") {
			continue
		}
		switch {
		case strings.HasPrefix(s, "unsat"):
			return Unsat, strings.Join(t[:len(t)-1], " ")
		case strings.HasPrefix(s, "sat"):
			return Sat, strings.Join(t[:len(t)-1], " ")
		}
	}
	return Unknown, ""
}

func (h *harnessRun) noteFallback(who string) {
	h.mu.Lock()
	if h.res.Fallbacks == nil {
		h.res.Fallbacks = map[string]int{}
	}
	h.res.Fallbacks[who]++
	h.mu.Unlock()
}

var forkStats = os.Getenv("GOSYM_FORKSTATS") != ""
