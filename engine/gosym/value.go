// Derived from golang.org/x/tools/go/ssa/interp (BSD licence, see LICENSE.xtools),
// extended with symbolic scalars, symbolic strings and deterministic maps.

package gosym

// Values
//
// All interpreter values are "boxed" in the empty interface, value.
// The range of possible dynamic types within value are:
//
// - bool, symBool
// - numbers (all built-in int/float/complex types are distinguished), symInt
// - string, symString
// - *omap --- maps (insertion-ordered, deterministic)
// - *channel
// - []value --- slices
// - iface --- interfaces.
// - structure --- structs.  Fields are ordered and accessed by numeric indices.
// - array --- arrays.
// - *value --- pointers.  Careful: *value is a distinct type from *array etc.
// - *symPtr --- address of slice/array element selected by a symbolic index
// - *ssa.Function, *ssa.Builtin, *closure --- functions.
// - tuple --- as returned by Return, Next, "value,ok" modes, etc.
// - iter --- iterators from 'range' over map or string.
// - bad --- a poison pill for locals that have gone out of scope.
// - **deferred -- the address of a frame's defer stack for a Defer._Stack.
// - *native --- opaque host object (regexp etc.)

import (
	"bytes"
	"fmt"
	"go/types"
	"unsafe"

	"golang.org/x/tools/go/ssa"
)

type value interface{}

type tuple []value

type array []value

type iface struct {
	t types.Type // never an "untyped" type
	v value
}

type structure []value

type iter interface {
	next() tuple
}

type closure struct {
	Fn  *ssa.Function
	Env []value
}

type bad struct{}

// native wraps a host Go object that the interpreted program treats as opaque.
type native struct {
	kind string
	obj  interface{}
}

// Symbolic scalar of integer kind k.
type symInt struct {
	t *Term
	k types.BasicKind
}

type symBool struct {
	t *Term
}

// symString: string of concrete length with at least one symbolic byte.
type symString struct {
	b []value // uint8 or symInt{Uint8}
}

// symPtr is the address of elems[idx] for a symbolic idx known to be in range.
type symPtr struct {
	elems []value
	idx   symInt
}

// channel models a Go channel on a single goroutine.
type channel struct {
	buf    []value
	cap    int
	closed bool
	id     int
}

func mustDeref(t types.Type) types.Type {
	if p, ok := t.Underlying().(*types.Pointer); ok {
		return p.Elem()
	}
	panic(fmt.Sprintf("mustDeref: %v is not a pointer", t))
}

func kindWidth(k types.BasicKind) int {
	switch k {
	case types.Int8, types.Uint8:
		return 8
	case types.Int16, types.Uint16:
		return 16
	case types.Int32, types.Uint32:
		return 32
	case types.Int, types.Int64, types.Uint, types.Uint64, types.Uintptr:
		return 64
	}
	panic(fmt.Sprintf("kindWidth: %v", k))
}

func kindSigned(k types.BasicKind) bool {
	switch k {
	case types.Int, types.Int8, types.Int16, types.Int32, types.Int64:
		return true
	}
	return false
}

// intKind returns the basic kind of a concrete or symbolic integer value.
func intKind(x value) (types.BasicKind, bool) {
	switch x := x.(type) {
	case int:
		return types.Int, true
	case int8:
		return types.Int8, true
	case int16:
		return types.Int16, true
	case int32:
		return types.Int32, true
	case int64:
		return types.Int64, true
	case uint:
		return types.Uint, true
	case uint8:
		return types.Uint8, true
	case uint16:
		return types.Uint16, true
	case uint32:
		return types.Uint32, true
	case uint64:
		return types.Uint64, true
	case uintptr:
		return types.Uintptr, true
	case symInt:
		return x.k, true
	}
	return 0, false
}

// intOfKind builds the concrete Go value of kind k from bits v.
func intOfKind(v uint64, k types.BasicKind) value {
	switch k {
	case types.Int:
		return int(v)
	case types.Int8:
		return int8(v)
	case types.Int16:
		return int16(v)
	case types.Int32:
		return int32(v)
	case types.Int64:
		return int64(v)
	case types.Uint:
		return uint(v)
	case types.Uint8:
		return uint8(v)
	case types.Uint16:
		return uint16(v)
	case types.Uint32:
		return uint32(v)
	case types.Uint64:
		return uint64(v)
	case types.Uintptr:
		return uintptr(v)
	}
	panic(fmt.Sprintf("intOfKind: %v", k))
}

func isSym(x value) bool {
	switch x.(type) {
	case symInt, symBool, symString:
		return true
	}
	return false
}

// containsSym reports whether a (possibly aggregate) value contains symbolic scalars.
func containsSym(x value) bool {
	switch x := x.(type) {
	case symInt, symBool, symString:
		return true
	case structure:
		for _, e := range x {
			if containsSym(e) {
				return true
			}
		}
	case array:
		for _, e := range x {
			if containsSym(e) {
				return true
			}
		}
	case iface:
		return containsSym(x.v)
	}
	return false
}

// ---------------------------------------------------------------------------
// Ordered map

type oent struct {
	key, val value
	live     bool
	sym      bool // key contains symbolic parts (not in idx)
}

type omap struct {
	keyType types.Type
	idx     map[interface{}]int
	ents    []oent
	n       int
	nsym    int // live entries with symbolic keys
}

func makeMap(kt types.Type) *omap {
	return &omap{keyType: kt, idx: make(map[interface{}]int)}
}

// normKey maps a concrete key to a host-comparable representative.
func normKey(k value) interface{} {
	switch k := k.(type) {
	case structure, array, iface:
		var b bytes.Buffer
		writeKey(&b, k)
		return b.String()
	case symInt, symBool, symString:
		panic(unsupported("symbolic map key"))
	}
	return k
}

func writeKey(b *bytes.Buffer, k value) {
	switch k := k.(type) {
	case structure:
		b.WriteString("{")
		for _, e := range k {
			writeKey(b, e)
			b.WriteString(";")
		}
		b.WriteString("}")
	case array:
		b.WriteString("[")
		for _, e := range k {
			writeKey(b, e)
			b.WriteString(";")
		}
		b.WriteString("]")
	case iface:
		if k.t == nil {
			b.WriteString("<nil>")
		} else {
			fmt.Fprintf(b, "(%s)", k.t.String())
			writeKey(b, k.v)
		}
	case symInt, symBool, symString:
		panic(unsupported("symbolic map key"))
	case string:
		fmt.Fprintf(b, "%q", k)
	default:
		fmt.Fprintf(b, "%T:%v", k, k)
	}
}

func (m *omap) lookup(k value) (value, bool) {
	if m == nil {
		return nil, false
	}
	if i, ok := m.idx[normKey(k)]; ok {
		return m.ents[i].val, true
	}
	return nil, false
}

func (m *omap) insert(k, v value) {
	if m == nil {
		panic(targetPanic{"assignment to entry in nil map"})
	}
	nk := normKey(k)
	if i, ok := m.idx[nk]; ok {
		m.ents[i].val = v
		return
	}
	m.idx[nk] = len(m.ents)
	m.ents = append(m.ents, oent{key: k, val: v, live: true})
	m.n++
}

func (m *omap) delete(k value) {
	if m == nil {
		return
	}
	nk := normKey(k)
	if i, ok := m.idx[nk]; ok {
		m.ents[i].live = false
		m.ents[i].val = nil
		delete(m.idx, nk)
		m.n--
	}
}

func (m *omap) len() int {
	if m == nil {
		return 0
	}
	return m.n
}

type mapIter struct {
	m *omap
	i int
}

func (it *mapIter) next() tuple {
	if it.m != nil {
		for it.i < len(it.m.ents) {
			e := it.m.ents[it.i]
			it.i++
			if e.live {
				return tuple{true, e.key, e.val}
			}
		}
	}
	return tuple{false, nil, nil}
}

// ---------------------------------------------------------------------------

// nil-tolerant variant of types.Identical.
func sameType(x, y types.Type) bool {
	if x == nil {
		return y == nil
	}
	return y != nil && types.Identical(x, y)
}

// load returns the value of type T in *addr.
func load(T types.Type, addr *value) value {
	switch T := T.Underlying().(type) {
	case *types.Struct:
		v := (*addr).(structure)
		a := make(structure, len(v))
		for i := range a {
			a[i] = load(T.Field(i).Type(), &v[i])
		}
		return a
	case *types.Array:
		v := (*addr).(array)
		a := make(array, len(v))
		for i := range a {
			a[i] = load(T.Elem(), &v[i])
		}
		return a
	default:
		return *addr
	}
}

// store stores value v of type T into *addr.
func store(T types.Type, addr *value, v value) {
	switch T := T.Underlying().(type) {
	case *types.Struct:
		lhs := (*addr).(structure)
		rhs := v.(structure)
		for i := range lhs {
			store(T.Field(i).Type(), &lhs[i], rhs[i])
		}
	case *types.Array:
		lhs := (*addr).(array)
		rhs := v.(array)
		for i := range lhs {
			store(T.Elem(), &lhs[i], rhs[i])
		}
	default:
		*addr = v
	}
}

// copyVal makes an unaliased copy of an aggregate value.
func copyVal(v value) value {
	switch v := v.(type) {
	case structure:
		a := make(structure, len(v))
		for i := range v {
			a[i] = copyVal(v[i])
		}
		return a
	case array:
		a := make(array, len(v))
		for i := range v {
			a[i] = copyVal(v[i])
		}
		return a
	}
	return v
}

func writeValue(buf *bytes.Buffer, v value) {
	switch v := v.(type) {
	case nil, bool, int, int8, int16, int32, int64, uint, uint8, uint16, uint32, uint64, uintptr, float32, float64, complex64, complex128, string:
		fmt.Fprintf(buf, "%v", v)
	case symInt:
		fmt.Fprintf(buf, "<sym:%s>", ref(v.t))
	case symBool:
		fmt.Fprintf(buf, "<symbool:%s>", ref(v.t))
	case symString:
		buf.WriteString("<symstr:")
		for _, b := range v.b {
			if c, ok := b.(uint8); ok {
				buf.WriteByte(c)
			} else {
				buf.WriteByte('?')
			}
		}
		buf.WriteString(">")
	case *omap:
		buf.WriteString("map[")
		if v != nil {
			sep := ""
			for _, e := range v.ents {
				if !e.live {
					continue
				}
				buf.WriteString(sep)
				sep = " "
				writeValue(buf, e.key)
				buf.WriteString(":")
				writeValue(buf, e.val)
			}
		}
		buf.WriteString("]")
	case *channel:
		fmt.Fprintf(buf, "chan#%p", v)
	case *value:
		if v == nil {
			buf.WriteString("<nil>")
		} else {
			fmt.Fprintf(buf, "%p", v)
		}
	case iface:
		if v.t == nil {
			buf.WriteString("<nil>")
			return
		}
		fmt.Fprintf(buf, "(%s, ", v.t)
		writeValue(buf, v.v)
		buf.WriteString(")")
	case structure:
		buf.WriteString("{")
		for i, e := range v {
			if i > 0 {
				buf.WriteString(" ")
			}
			writeValue(buf, e)
		}
		buf.WriteString("}")
	case array:
		buf.WriteString("[")
		for i, e := range v {
			if i > 0 {
				buf.WriteString(" ")
			}
			writeValue(buf, e)
		}
		buf.WriteString("]")
	case []value:
		buf.WriteString("[")
		for i, e := range v {
			if i > 0 {
				buf.WriteString(" ")
			}
			writeValue(buf, e)
		}
		buf.WriteString("]")
	case *ssa.Function, *ssa.Builtin, *closure:
		fmt.Fprintf(buf, "%p", v)
	case tuple:
		buf.WriteString("(")
		for i, e := range v {
			if i > 0 {
				buf.WriteString(", ")
			}
			writeValue(buf, e)
		}
		buf.WriteString(")")
	default:
		fmt.Fprintf(buf, "<%T>", v)
	}
}

func toString(v value) string {
	var b bytes.Buffer
	writeValue(&b, v)
	return b.String()
}

// zero returns a new "zero" value of the specified type.
func zero(t types.Type) value {
	switch t := t.(type) {
	case *types.Basic:
		if t.Kind() == types.UntypedNil {
			panic("untyped nil has no zero value")
		}
		if t.Info()&types.IsUntyped != 0 {
			t = types.Default(t).(*types.Basic)
		}
		switch t.Kind() {
		case types.Bool:
			return false
		case types.Int:
			return int(0)
		case types.Int8:
			return int8(0)
		case types.Int16:
			return int16(0)
		case types.Int32:
			return int32(0)
		case types.Int64:
			return int64(0)
		case types.Uint:
			return uint(0)
		case types.Uint8:
			return uint8(0)
		case types.Uint16:
			return uint16(0)
		case types.Uint32:
			return uint32(0)
		case types.Uint64:
			return uint64(0)
		case types.Uintptr:
			return uintptr(0)
		case types.Float32:
			return float32(0)
		case types.Float64:
			return float64(0)
		case types.Complex64:
			return complex64(0)
		case types.Complex128:
			return complex128(0)
		case types.String:
			return ""
		case types.UnsafePointer:
			return unsafe.Pointer(nil)
		default:
			panic(fmt.Sprint("zero for unexpected type:", t))
		}
	case *types.Pointer:
		return (*value)(nil)
	case *types.Array:
		a := make(array, t.Len())
		for i := range a {
			a[i] = zero(t.Elem())
		}
		return a
	case *types.Named:
		return zero(t.Underlying())
	case *types.Alias:
		return zero(types.Unalias(t))
	case *types.Interface:
		return iface{}
	case *types.Slice:
		return []value(nil)
	case *types.Struct:
		s := make(structure, t.NumFields())
		for i := range s {
			s[i] = zero(t.Field(i).Type())
		}
		return s
	case *types.Tuple:
		if t.Len() == 1 {
			return zero(t.At(0).Type())
		}
		s := make(tuple, t.Len())
		for i := range s {
			s[i] = zero(t.At(i).Type())
		}
		return s
	case *types.Chan:
		return (*channel)(nil)
	case *types.Map:
		return (*omap)(nil)
	case *types.Signature:
		return (*ssa.Function)(nil)
	case *types.TypeParam:
		panic(unsupported("zero of type parameter"))
	}
	panic(fmt.Sprint("zero: unexpected ", t))
}
