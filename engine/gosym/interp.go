// Derived from golang.org/x/tools/go/ssa/interp (BSD licence, see LICENSE.xtools),
// turned into a symbolic executor: scalars may be SMT terms, branches on symbolic
// conditions consult a decision script / the solver.

package gosym

import (
	"fmt"
	"go/token"
	"go/types"
	"os"
	"runtime"
	"runtime/debug"
	"slices"
	"strings"
	"time"

	"golang.org/x/tools/go/ssa"
)

type continuation int

const (
	kNext continuation = iota
	kReturn
	kJump
)

// pathAbort ends the current path (not a target panic).
type pathAbort struct {
	kind   string // "assume", "blocked", "crash", "unsupported", "unwind", "budget", "engine", "done"
	reason string
}

func unsupported(msg string) pathAbort { return pathAbort{"unsupported", msg} }

// linknames maps a bodiless function to the (package path, function) it is linked to.
var linknames = map[string][2]string{
	"mime/multipart.readMIMEHeader": {"net/textproto", "readMIMEHeader"},
}

// State of one path execution.
type interpreter struct {
	eng                *Engine
	prog               *ssa.Program
	globals            map[*ssa.Global]*value
	initDone           map[*ssa.Package]bool
	runtimeErrorString types.Type
	tb                 *TB
	p                  *pathState
	steps              int64
	loopCount          map[*ssa.BasicBlock]int
	spawned            []spawn
	nextChanID         int
	locks              map[*value]int // mutex cell -> lock depth (1 = held)
	onceDone           map[*value]bool
	clockNs            int64
	natives            map[string]value
	trace              bool
	depth              int
	funcsSeen          map[*ssa.Function]bool
	heldLog            []string
	initRoot           *ssa.Function
	skipExternal       *ssa.Function
	timers             map[*value]bool
	guardCells         map[*value]*value // memory cell -> lock that must be held to touch it (verifGuard)
	guardMaps          map[*omap]*value  // map -> lock that must be held to touch it
	syncMaps           map[*value]*omap
	atomicValues       map[*value]value // sync/atomic.Value contents by address
	wg                 map[*value]int
	built              map[*ssa.Package]bool
}

type spawn struct {
	fn   value
	args []value
	pos  token.Pos
}

type deferred struct {
	fn    value
	args  []value
	instr *ssa.Defer
	tail  *deferred
}

type frame struct {
	i                *interpreter
	caller           *frame
	fn               *ssa.Function
	block, prevBlock *ssa.BasicBlock
	env              map[ssa.Value]value // dynamic values of SSA variables
	locals           []value
	defers           *deferred
	result           value
	panicking        bool
	panic            interface{}
	phitemps         []value // temporaries for parallel phi assignment
	skipPhis         bool    // phis of fr.block were already evaluated by if-conversion
	retByConvert     bool
}

func (fr *frame) get(key ssa.Value) value {
	switch key := key.(type) {
	case nil:
		return nil
	case *ssa.Function, *ssa.Builtin:
		return key
	case *ssa.Const:
		return constValue(key)
	case *ssa.Global:
		return fr.i.globalAddr(key)
	}
	if r, ok := fr.env[key]; ok {
		return r
	}
	panic(fmt.Sprintf("get: no value for %T: %v", key, key.Name()))
}

// globalAddr returns the cell of a package-level variable, initialising its package lazily.
func (i *interpreter) globalAddr(g *ssa.Global) *value {
	if r, ok := i.globals[g]; ok {
		return r
	}
	pkg := g.Pkg
	// allocate all globals of the package
	for _, m := range pkg.Members {
		if gv, ok := m.(*ssa.Global); ok {
			if _, ok := i.globals[gv]; !ok {
				cell := zero(mustDeref(gv.Type()))
				i.globals[gv] = &cell
			}
		}
	}
	r := i.globals[g]
	if r == nil {
		// e.g. global of an instantiated generic or an unlisted member
		cell := zero(mustDeref(g.Type()))
		i.globals[g] = &cell
		r = &cell
	}
	i.ensureInit(pkg)
	return r
}

// ensureInit runs pkg's initializer (variable initializers + init functions) once,
// without first running the initializers of imported packages (those run lazily too).
func (i *interpreter) ensureInit(pkg *ssa.Package) {
	if i.initDone[pkg] {
		return
	}
	i.initDone[pkg] = true
	if i.eng.skipInit(pkg) {
		return
	}
	pkg.Build()
	initFn := pkg.Func("init")
	if initFn == nil || initFn.Blocks == nil {
		return
	}
	if i.trace {
		fmt.Fprintf(os.Stderr, "## lazy init of %s\n", pkg.Pkg.Path())
	}
	saved := i.initRoot
	i.initRoot = initFn
	defer func() { i.initRoot = saved }()
	callSSA(i, nil, token.NoPos, initFn, nil, nil)
}

func (fr *frame) runDefer(d *deferred) {
	var ok bool
	defer func() {
		if !ok {
			r := recover()
			if pa, isAbort := r.(pathAbort); isAbort {
				panic(pa)
			}
			// Deferred call created a new state of panic.
			fr.panicking = true
			fr.panic = r
		}
	}()
	call(fr.i, fr, d.instr.Pos(), d.fn, d.args)
	ok = true
}

func (fr *frame) runDefers() {
	for d := fr.defers; d != nil; d = d.tail {
		fr.runDefer(d)
	}
	fr.defers = nil
	if fr.panicking {
		panic(fr.panic) // new panic, or still panicking
	}
}

func lookupMethod(i *interpreter, typ types.Type, meth *types.Func) *ssa.Function {
	return i.prog.LookupMethod(typ, meth.Pkg(), meth.Name())
}

func nilDeref() targetPanic {
	return targetPanic{"runtime error: invalid memory address or nil pointer dereference"}
}

// visitInstr interprets a single ssa.Instruction within the activation record frame.
func visitInstr(fr *frame, instr ssa.Instruction) continuation {
	switch instr := instr.(type) {
	case *ssa.DebugRef:
		// no-op

	case *ssa.UnOp:
		fr.env[instr] = unop(fr, instr, fr.get(instr.X))

	case *ssa.BinOp:
		fr.env[instr] = binop(fr, instr.Op, instr.X.Type(), fr.get(instr.X), fr.get(instr.Y))

	case *ssa.Call:
		fn, args := prepareCall(fr, &instr.Call)
		fr.env[instr] = call(fr.i, fr, instr.Pos(), fn, args)

	case *ssa.ChangeInterface:
		fr.env[instr] = fr.get(instr.X)

	case *ssa.ChangeType:
		fr.env[instr] = fr.get(instr.X) // (can't fail)

	case *ssa.Convert:
		fr.env[instr] = conv(fr, instr.Type(), instr.X.Type(), fr.get(instr.X))

	case *ssa.MultiConvert:
		fr.env[instr] = conv(fr, instr.Type(), instr.X.Type(), fr.get(instr.X))

	case *ssa.SliceToArrayPointer:
		fr.env[instr] = sliceToArrayPointer(instr.Type(), instr.X.Type(), fr.get(instr.X))

	case *ssa.MakeInterface:
		fr.env[instr] = iface{t: instr.X.Type(), v: fr.get(instr.X)}

	case *ssa.Extract:
		fr.env[instr] = fr.get(instr.Tuple).(tuple)[instr.Index]

	case *ssa.Slice:
		fr.env[instr] = sliceOp(fr, fr.get(instr.X), fr.get(instr.Low), fr.get(instr.High), fr.get(instr.Max))

	case *ssa.Return:
		switch len(instr.Results) {
		case 0:
		case 1:
			fr.result = fr.get(instr.Results[0])
		default:
			var res []value
			for _, r := range instr.Results {
				res = append(res, fr.get(r))
			}
			fr.result = tuple(res)
		}
		fr.block = nil
		return kReturn

	case *ssa.RunDefers:
		fr.runDefers()

	case *ssa.Panic:
		panic(targetPanic{fr.get(instr.X)})

	case *ssa.Send:
		fr.i.chanSend(fr.get(instr.Chan).(*channel), fr.get(instr.X))

	case *ssa.Store:
		addr := fr.get(instr.Addr)
		switch addr := addr.(type) {
		case *value:
			if addr == nil {
				panic(nilDeref())
			}
			if len(fr.i.guardCells) > 0 {
				fr.checkGuardCell(addr, true)
			}
			store(mustDeref(instr.Addr.Type()), addr, fr.get(instr.Val))
		case *symPtr:
			fr.i.storeSymPtr(addr, fr.get(instr.Val))
		default:
			panic(fmt.Sprintf("store to %T", addr))
		}

	case *ssa.If:
		succ := 1
		switch c := fr.get(instr.Cond).(type) {
		case bool:
			if c {
				succ = 0
			}
		case symBool:
			if fr.ifConvert(instr, c) {
				if fr.retByConvert {
					fr.retByConvert = false
					return kReturn
				}
				return kJump
			}
			if fr.branch(c.t, "if") {
				succ = 0
			}
		default:
			panic(fmt.Sprintf("if on %T", c))
		}
		fr.prevBlock, fr.block = fr.block, fr.block.Succs[succ]
		return kJump

	case *ssa.Jump:
		fr.prevBlock, fr.block = fr.block, fr.block.Succs[0]
		return kJump

	case *ssa.Defer:
		fn, args := prepareCall(fr, &instr.Call)
		defers := &fr.defers
		if into := fr.get(instr.DeferStack); into != nil {
			defers = into.(**deferred)
		}
		*defers = &deferred{
			fn:    fn,
			args:  args,
			instr: instr,
			tail:  *defers,
		}

	case *ssa.Go:
		fn, args := prepareCall(fr, &instr.Call)
		fr.i.spawned = append(fr.i.spawned, spawn{fn, args, instr.Pos()})

	case *ssa.MakeChan:
		fr.i.nextChanID++
		fr.env[instr] = &channel{cap: int(asInt64(fr.get(instr.Size))), id: fr.i.nextChanID}

	case *ssa.Alloc:
		var addr *value
		if instr.Heap {
			// new
			addr = new(value)
			fr.env[instr] = addr
		} else {
			// local
			addr = fr.env[instr].(*value)
		}
		*addr = zero(mustDeref(instr.Type()))

	case *ssa.MakeSlice:
		capv := fr.get(instr.Cap)
		lenv := fr.get(instr.Len)
		if sl, ok := lenv.(symInt); ok {
			lenv = fr.concretizeAny(sl, "make-len")
			if sc, ok := capv.(symInt); ok && sc.t == sl.t {
				capv = lenv
			}
		}
		if sc, ok := capv.(symInt); ok {
			// A symbolic capacity with a concrete length: the capacity only decides when append re-allocates,
			// which no value the program computes depends on (cap() of such a slice excepted, not supported).
			// Branch on the run-time check (0 <= len <= cap <= limit) and continue with cap = len.
			tb := fr.i.tb
			l := asInt64(lenv)
			okc := tb.And(tb.Cmp(OpBvSle, tb.Const(uint64(l), sc.t.W), sc.t), tb.Cmp(OpBvSle, sc.t, tb.Const(1<<28, sc.t.W)))
			if !fr.branch(okc, "make-cap-in-range") {
				panic(targetPanic{"runtime error: makeslice: cap out of range"})
			}
			capv = lenv
		}
		c, l := asInt64(capv), asInt64(lenv)
		if l < 0 || c < l || c > 1<<28 {
			panic(targetPanic{"runtime error: makeslice: len out of range"})
		}
		slice := make([]value, c)
		tElt := instr.Type().Underlying().(*types.Slice).Elem()
		for i := range slice {
			slice[i] = zero(tElt)
		}
		fr.env[instr] = slice[:l]

	case *ssa.MakeMap:
		fr.env[instr] = makeMap(instr.Type().Underlying().(*types.Map).Key())

	case *ssa.Range:
		if m, ok := fr.get(instr.X).(*omap); ok {
			fr.checkGuardMap(m, false)
		}
		fr.env[instr] = rangeIter(fr, fr.get(instr.X), instr.X.Type())

	case *ssa.Next:
		fr.env[instr] = fr.get(instr.Iter).(iter).next()

	case *ssa.FieldAddr:
		p, ok := fr.get(instr.X).(*value)
		if !ok {
			panic(unsupported(fmt.Sprintf("FieldAddr on %T", fr.get(instr.X))))
		}
		if p == nil {
			panic(nilDeref())
		}
		fr.env[instr] = &(*p).(structure)[instr.Field]

	case *ssa.Field:
		fr.env[instr] = fr.get(instr.X).(structure)[instr.Field]

	case *ssa.IndexAddr:
		x := fr.get(instr.X)
		idx := fr.get(instr.Index)
		var elems []value
		switch x := x.(type) {
		case []value:
			elems = x
		case *value: // *array
			if x == nil {
				panic(nilDeref())
			}
			elems = (*x).(array)
		default:
			panic(fmt.Sprintf("unexpected x type in IndexAddr: %T", x))
		}
		if s, ok := idx.(symInt); ok {
			fr.env[instr] = fr.symIndexAddr(elems, s)
		} else {
			k := asInt64(idx)
			if k < 0 || k >= int64(len(elems)) {
				panic(targetPanic{fmt.Sprintf("runtime error: index out of range [%d] with length %d", k, len(elems))})
			}
			fr.env[instr] = &elems[k]
		}

	case *ssa.Index:
		x := fr.get(instr.X)
		idx := fr.get(instr.Index)
		switch x := x.(type) {
		case array:
			fr.env[instr] = fr.indexValue([]value(x), idx)
		case string, symString:
			fr.env[instr] = fr.indexValue(strBytes(x), idx)
		default:
			panic(fmt.Sprintf("unexpected x type in Index: %T", x))
		}

	case *ssa.Lookup:
		fr.env[instr] = fr.lookup(instr, fr.get(instr.X), fr.get(instr.Index))

	case *ssa.MapUpdate:
		m := fr.get(instr.Map).(*omap)
		fr.checkGuardMap(m, true)
		key := fr.get(instr.Key)
		v := fr.get(instr.Value)
		fr.mapInsert(m, key, copyVal(v), instr.Key.Type())

	case *ssa.TypeAssert:
		fr.env[instr] = typeAssert(fr.i, instr, fr.get(instr.X).(iface))

	case *ssa.MakeClosure:
		var bindings []value
		for _, binding := range instr.Bindings {
			bindings = append(bindings, fr.get(binding))
		}
		fr.env[instr] = &closure{instr.Fn.(*ssa.Function), bindings}

	case *ssa.Phi:
		panic("unreachable: phis are processed at block entry")

	case *ssa.Select:
		fr.env[instr] = fr.doSelect(instr)

	default:
		panic(fmt.Sprintf("unexpected instruction: %T", instr))
	}
	return kNext
}

// symIndexAddr returns the address of elems[idx] for symbolic idx; forks on the bounds check.
func (fr *frame) symIndexAddr(elems []value, s symInt) value {
	tb := fr.i.tb
	n := len(elems)
	inb := tb.True()
	if s.t.W >= 64 || uint64(n) <= mask(s.t.W) {
		inb = tb.Cmp(OpBvUlt, s.t, tb.Const(uint64(n), s.t.W)) // unsigned compare also catches negatives
	}
	if n == 0 || !fr.branch(inb, "index-in-range") {
		panic(targetPanic{fmt.Sprintf("runtime error: index out of range [symbolic] with length %d", n)})
	}
	scalar := true
	for _, e := range elems {
		switch e.(type) {
		case bool, symBool, symInt:
		default:
			if _, ok := intKind(e); !ok {
				scalar = false
			}
		}
		if !scalar {
			break
		}
	}
	if scalar {
		return &symPtr{elems: elems, idx: s}
	}
	k := fr.concretizeRange(s, 0, n-1, "index")
	return &elems[k]
}

// indexValue returns elems[idx] (rvalue).
func (fr *frame) indexValue(elems []value, idx value) value {
	if s, ok := idx.(symInt); ok {
		p := fr.symIndexAddr(elems, s)
		switch p := p.(type) {
		case *symPtr:
			return fr.i.loadSymPtr(p)
		case *value:
			return *p
		}
	}
	k := asInt64(idx)
	if k < 0 || k >= int64(len(elems)) {
		panic(targetPanic{fmt.Sprintf("runtime error: index out of range [%d] with length %d", k, len(elems))})
	}
	return elems[k]
}

// concretizeRange forks over lo..hi for s; returns hi+1 if s may be outside and that side is taken.
func (fr *frame) concretizeRange(s symInt, lo, hi int, what string) int {
	tb := fr.i.tb
	for v := lo; v <= hi; v++ {
		if fr.branch(tb.Eq(s.t, tb.Const(uint64(int64(v)), s.t.W)), what) {
			return v
		}
	}
	return hi + 1
}

// concretizeAny forks over the feasible values of s (at most 64 of them), returning the value on this path.
func (fr *frame) concretizeAny(s symInt, what string) value {
	for n := 0; n < 64; n++ {
		val, ok := fr.i.p.scriptedModelValue(fr.i, s.t)
		if !ok {
			break
		}
		c := fr.i.tb.Const(val, s.t.W)
		if fr.branch(fr.i.tb.Eq(s.t, c), what) {
			return fr.i.mkInt(c, s.k)
		}
	}
	panic(unsupported("symbolic value with more than 64 feasible values where a concrete one is needed: " + what))
}

// findEntry returns the index in m.ents of the live entry whose key equals key on this path
// (forking on symbolic equalities), or -1 if the key differs from every entry.
func (fr *frame) findEntry(m *omap, key value, kt types.Type) int {
	if m == nil {
		return -1
	}
	if kt == nil {
		kt = anyType
	}
	keySym := containsSym(key)
	if !keySym {
		if i, ok := m.idx[normKey(key)]; ok {
			return i
		}
		if m.nsym == 0 {
			return -1
		}
	}
	for i := range m.ents {
		e := &m.ents[i]
		if !e.live {
			continue
		}
		if !keySym && !e.sym {
			continue // concrete vs concrete: decided by the index above
		}
		eq := fr.i.equals(kt, key, e.key)
		switch eq := eq.(type) {
		case bool:
			if eq {
				return i
			}
		case symBool:
			if fr.branch(eq.t, "map-key") {
				return i
			}
		}
	}
	return -1
}

func (fr *frame) mapLookup(m *omap, key value, kt types.Type) (value, bool) {
	if i := fr.findEntry(m, key, kt); i >= 0 {
		return m.ents[i].val, true
	}
	return nil, false
}

func (fr *frame) mapInsert(m *omap, key, val value, kt types.Type) {
	if m == nil {
		panic(targetPanic{"assignment to entry in nil map"})
	}
	if i := fr.findEntry(m, key, kt); i >= 0 {
		m.ents[i].val = val
		return
	}
	if containsSym(key) {
		m.ents = append(m.ents, oent{key: key, val: val, live: true, sym: true})
		m.nsym++
		m.n++
		return
	}
	m.insert(key, val)
}

func (fr *frame) mapDelete(m *omap, key value, kt types.Type) {
	i := fr.findEntry(m, key, kt)
	if i < 0 {
		return
	}
	e := &m.ents[i]
	if e.sym {
		e.live = false
		e.val = nil
		m.nsym--
		m.n--
		return
	}
	m.delete(e.key)
}

// pickConcrete chooses, for a symbolic value, one concrete model value and constrains the path to it
// (the alternative "any other value" is explored as a separate path).
func (fr *frame) pickConcrete(v value, t types.Type) value {
	switch v := v.(type) {
	case symInt:
		for {
			val, ok := fr.i.p.scriptedModelValue(fr.i, v.t)
			if !ok {
				panic(pathAbort{"unsupported", "cannot concretize symbolic value"})
			}
			c := fr.i.tb.Const(val, v.t.W)
			if fr.branch(fr.i.tb.Eq(v.t, c), "concretize") {
				return fr.i.mkInt(c, v.k)
			}
		}
	case symString:
		b := make([]value, len(v.b))
		for j, e := range v.b {
			if s, ok := e.(symInt); ok {
				b[j] = fr.pickConcrete(s, nil)
			} else {
				b[j] = e
			}
		}
		return mkString(b)
	case iface:
		return iface{v.t, fr.pickConcrete(v.v, v.t)}
	}
	panic(unsupported(fmt.Sprintf("concretize %T", v)))
}

func (fr *frame) lookup(instr *ssa.Lookup, x, idx value) value {
	switch x := x.(type) {
	case *omap:
		fr.checkGuardMap(x, false)
		var v value
		var ok bool
		v, ok = fr.mapLookup(x, idx, instr.X.Type().Underlying().(*types.Map).Key())
		if !ok {
			v = zero(instr.X.Type().Underlying().(*types.Map).Elem())
		} else {
			v = copyVal(v)
		}
		if instr.CommaOk {
			v = tuple{v, ok}
		}
		return v
	case string, symString:
		return fr.indexValue(strBytes(x), idx)
	}
	panic(fmt.Sprintf("unexpected x type in Lookup: %T", x))
}

// prepareCall determines the function value and argument values for a
// function call in a Call, Go or Defer instruction, performing
// interface method lookup if needed.
func prepareCall(fr *frame, call *ssa.CallCommon) (fn value, args []value) {
	v := fr.get(call.Value)
	if call.Method == nil {
		// Function call.
		fn = v
	} else {
		// Interface method invocation.
		recv := v.(iface)
		if recv.t == nil {
			panic(targetPanic{"runtime error: invalid memory address or nil pointer dereference (method invoked on nil interface)"})
		}
		if f := lookupMethod(fr.i, recv.t, call.Method); f == nil {
			panic(fmt.Sprintf("method set for dynamic type %v does not contain %s", recv.t, call.Method))
		} else {
			fn = f
		}
		args = append(args, recv.v)
	}
	for _, arg := range call.Args {
		args = append(args, fr.get(arg))
	}
	return
}

// call interprets a call to a function (function, builtin or closure)
func call(i *interpreter, caller *frame, callpos token.Pos, fn value, args []value) value {
	switch fn := fn.(type) {
	case *ssa.Function:
		if fn == nil {
			panic(targetPanic{"runtime error: invalid memory address or nil pointer dereference (call of nil func)"})
		}
		return callSSA(i, caller, callpos, fn, args, nil)
	case *closure:
		return callSSA(i, caller, callpos, fn.Fn, args, fn.Env)
	case *ssa.Builtin:
		return callBuiltin(caller, callpos, fn, args)
	case *native:
		if f, ok := fn.obj.(func(*frame, []value) value); ok {
			return f(caller, args)
		}
	}
	panic(fmt.Sprintf("cannot call %T", fn))
}

func loc(fset *token.FileSet, pos token.Pos) string {
	if pos == token.NoPos {
		return ""
	}
	return " at " + fset.Position(pos).String()
}

// callSSA interprets a call to function fn with arguments args,
// and lexical environment env, returning its result.
func callSSA(i *interpreter, caller *frame, callpos token.Pos, fn *ssa.Function, args []value, env []value) value {
	fr := &frame{
		i:      i,
		caller: caller, // for panic/recover
		fn:     fn,
	}
	if i.trace {
		fmt.Fprintf(os.Stderr, "%s> %s\n", strings.Repeat(" ", i.depth), fn)
	}
	if fn.Synthetic == "package initializer" && fn != i.initRoot {
		// initializers of imported packages run lazily, on first use of one of their variables
		return nil
	}
	if fn.Parent() == nil {
		if i.skipExternal == fn {
			i.skipExternal = nil
		} else if ext := i.eng.external(fn); ext != nil {
			return ext(fr, args)
		}
	}
	// Packages are built on demand; Build() blocks until the package is completely built, which also
	// protects against observing a function half-built by another worker.
	if pkg := fn.Pkg; pkg != nil && !i.built[pkg] {
		pkg.Build()
		i.built[pkg] = true
	} else if pkg == nil {
		if par := fn.Parent(); par != nil && par.Pkg != nil && !i.built[par.Pkg] {
			par.Pkg.Build()
			i.built[par.Pkg] = true
		} else if o := fn.Origin(); o != nil && o.Pkg != nil && !i.built[o.Pkg] {
			o.Pkg.Build()
			i.built[o.Pkg] = true
		}
	}
	if fn.Blocks == nil {
		if fn.Blocks == nil {
			if ext := i.eng.external(fn); ext != nil {
				return ext(fr, args)
			}
			// bodiless functions bound to another package's function with //go:linkname
			if tgt, ok := linknames[fn.String()]; ok {
				if p := fn.Prog.ImportedPackage(tgt[0]); p != nil {
					if f := p.Func(tgt[1]); f != nil {
						return callSSA(i, caller, callpos, f, args, nil)
					}
				}
			}
			chain := ""
			for c, n := caller, 0; c != nil && n < 6; c, n = c.caller, n+1 {
				chain += " <- " + c.fn.String()
			}
			panic(unsupported("no code for function: " + fn.String() + chain))
		}
	}
	if fn.TypeParams().Len() > 0 && len(fn.TypeArgs()) == 0 {
		panic(unsupported("uninstantiated generic function " + fn.String()))
	}
	if i.funcsSeen != nil {
		i.funcsSeen[fn] = true
	}
	i.depth++
	if i.depth > 2000 {
		panic(pathAbort{"unwind", "call depth exceeded in " + fn.String()})
	}
	defer func() { i.depth-- }()

	fr.env = make(map[ssa.Value]value)
	fr.block = fn.Blocks[0]
	fr.locals = make([]value, len(fn.Locals))
	for k, l := range fn.Locals {
		fr.locals[k] = zero(mustDeref(l.Type()))
		fr.env[l] = &fr.locals[k]
	}
	for k, p := range fn.Params {
		fr.env[p] = args[k]
	}
	for k, fv := range fn.FreeVars {
		fr.env[fv] = env[k]
	}
	for fr.block != nil {
		runFrame(fr)
	}
	return fr.result
}

// runFrame executes SSA instructions starting at fr.block and
// continuing until a return, a panic, or a recovered panic.
func runFrame(fr *frame) {
	defer func() {
		if fr.block == nil {
			return // normal return
		}
		r := recover()
		switch r := r.(type) {
		case pathAbort:
			panic(r)
		case targetPanic:
		case runtime.Error:
			// host runtime error inside the interpreter = engine defect, not a target panic
			panic(pathAbort{"engine", fmt.Sprintf("host runtime error in %s: %v\n%s", fr.fn, r, debug.Stack())})
		case string:
			panic(pathAbort{"engine", fmt.Sprintf("interpreter panic in %s: %s\n%s", fr.fn, r, debug.Stack())})
		default:
			panic(pathAbort{"engine", fmt.Sprintf("interpreter panic in %s: %v\n%s", fr.fn, r, debug.Stack())})
		}
		fr.panicking = true
		fr.panic = r
		fr.runDefers()
		fr.block = fr.fn.Recover
		if fr.block == nil {
			// recovered, function without named results: return zero values
			fr.result = zero(fr.fn.Signature.Results())
		}
	}()

	for {
		nonPhis := executePhis(fr)
		if len(fr.block.Preds) > 1 {
			fr.i.loopTick(fr)
		}
		for _, instr := range nonPhis {
			fr.i.steps++
			if fr.i.trace {
				if v, ok := instr.(ssa.Value); ok {
					fmt.Fprintln(os.Stderr, strings.Repeat(" ", fr.i.depth), v.Name(), "=", instr)
				} else {
					fmt.Fprintln(os.Stderr, strings.Repeat(" ", fr.i.depth), instr)
				}
			}
			if visitInstr(fr, instr) == kReturn {
				return
			}
		}
	}
}

func (i *interpreter) loopTick(fr *frame) {
	if i.steps > i.eng.MaxSteps {
		panic(pathAbort{"budget", fmt.Sprintf("step budget %d exhausted in %s", i.eng.MaxSteps, fr.fn)})
	}
	if i.steps&0xfff == 0 && !i.eng.Deadline.IsZero() && time.Now().After(i.eng.Deadline) {
		panic(pathAbort{"budget", "wall-clock deadline reached in " + fr.fn.String()})
	}
}

// executePhis executes the phi-nodes at the start of the current
// block and returns the non-phi instructions.
func executePhis(fr *frame) []ssa.Instruction {
	firstNonPhi := -1
	for i, instr := range fr.block.Instrs {
		if _, ok := instr.(*ssa.Phi); !ok {
			firstNonPhi = i
			break
		}
	}
	nonPhis := fr.block.Instrs[firstNonPhi:]
	if fr.skipPhis {
		fr.skipPhis = false
		return nonPhis
	}
	if firstNonPhi > 0 {
		phis := fr.block.Instrs[:firstNonPhi]
		predIndex := slices.Index(fr.block.Preds, fr.prevBlock)
		fr.phitemps = fr.phitemps[:0]
		for _, phi := range phis {
			phi := phi.(*ssa.Phi)
			fr.phitemps = append(fr.phitemps, fr.get(phi.Edges[predIndex]))
		}
		for i, phi := range phis {
			fr.env[phi.(*ssa.Phi)] = fr.phitemps[i]
		}
	}
	return nonPhis
}

// doRecover implements the recover() built-in.
func doRecover(caller *frame) value {
	if caller != nil && !caller.panicking &&
		caller.caller != nil && caller.caller.panicking {
		caller.caller.panicking = false
		p := caller.caller.panic
		caller.caller.panic = nil
		switch p := p.(type) {
		case targetPanic:
			if s, ok := p.v.(string); ok {
				// runtime error raised by the interpreter on behalf of the Go runtime
				return iface{caller.i.runtimeErrorString, s}
			}
			return p.v
		default:
			panic(fmt.Sprintf("unexpected panic type %T in target call to recover()", p))
		}
	}
	return iface{}
}

// callBuiltin interprets a call to builtin fn with arguments args.
func callBuiltin(caller *frame, callpos token.Pos, fn *ssa.Builtin, args []value) value {
	switch fn.Name() {
	case "append":
		if len(args) == 1 {
			return args[0]
		}
		switch s := args[1].(type) {
		case string, symString:
			arg0 := args[0].([]value)
			return append(arg0, strBytes(s)...)
		}
		src := args[1].([]value)
		if len(src) == 0 {
			return args[0]
		}
		cp := make([]value, len(src))
		for k := range src {
			cp[k] = copyVal(src[k])
		}
		return append(args[0].([]value), cp...)

	case "copy": // copy([]T, []T) int or copy([]byte, string) int
		src := args[1]
		switch s := src.(type) {
		case string, symString:
			src = strBytes(s)
		}
		dst := args[0].([]value)
		s := src.([]value)
		n := len(dst)
		if len(s) < n {
			n = len(s)
		}
		tmp := make([]value, n)
		for k := 0; k < n; k++ {
			tmp[k] = copyVal(s[k])
		}
		copy(dst, tmp)
		return n

	case "close": // close(chan T)
		ch := args[0].(*channel)
		if ch == nil {
			panic(targetPanic{"close of nil channel"})
		}
		if ch.closed {
			panic(targetPanic{"close of closed channel"})
		}
		ch.closed = true
		return nil

	case "delete": // delete(map[K]value, K)
		m := args[0].(*omap)
		caller.checkGuardMap(m, true)
		caller.mapDelete(m, args[1], m.keyTypeOr(fn))
		return nil

	case "clear":
		switch x := args[0].(type) {
		case *omap:
			if x != nil {
				x.idx = make(map[interface{}]int)
				x.ents = nil
				x.n = 0
			}
		case []value:
			t := fn.Type().(*types.Signature).Params().At(0).Type().Underlying().(*types.Slice).Elem()
			for k := range x {
				x[k] = zero(t)
			}
		}
		return nil

	case "print", "println": // print(any, ...)
		return nil

	case "len":
		switch x := args[0].(type) {
		case string:
			return len(x)
		case symString:
			return len(x.b)
		case array:
			return len(x)
		case *value:
			if x == nil {
				// len of nil *array is the array length (static); SSA passes the pointer
				t := fn.Type().(*types.Signature).Params().At(0).Type()
				return int(mustDeref(t).Underlying().(*types.Array).Len())
			}
			return len((*x).(array))
		case []value:
			return len(x)
		case *omap:
			if caller != nil {
				caller.checkGuardMap(x, false)
			}
			return x.len()
		case *channel:
			if x == nil {
				return 0
			}
			return len(x.buf)
		default:
			panic(fmt.Sprintf("len: illegal operand: %T", x))
		}

	case "cap":
		switch x := args[0].(type) {
		case array:
			return cap(x)
		case *value:
			return cap((*x).(array))
		case []value:
			return cap(x)
		case *channel:
			if x == nil {
				return 0
			}
			return x.cap
		default:
			panic(fmt.Sprintf("cap: illegal operand: %T", x))
		}

	case "min", "max":
		x := args[0]
		for _, y := range args[1:] {
			var lt value
			if fn.Name() == "min" {
				lt = binop(caller, token.LSS, nil, y, x)
			} else {
				lt = binop(caller, token.GTR, nil, y, x)
			}
			switch c := lt.(type) {
			case bool:
				if c {
					x = y
				}
			case symBool:
				k, ok := intKind(x)
				if !ok {
					panic(unsupported("symbolic min/max of non-integers"))
				}
				x = caller.i.mkInt(caller.i.tb.Ite(c.t, caller.i.termOf(y), caller.i.termOf(x)), k)
			}
		}
		return x

	case "panic":
		panic(targetPanic{args[0]})

	case "recover":
		return doRecover(caller)

	case "ssa:wrapnilchk":
		recv := args[0]
		if recv.(*value) == nil {
			recvType := args[1]
			methodName := args[2]
			panic(targetPanic{fmt.Sprintf("value method (%s).%s called using nil *%s pointer",
				recvType, methodName, recvType)})
		}
		return recv

	case "ssa:deferstack":
		return &caller.defers
	}

	panic(unsupported("built-in: " + fn.Name() + " in " + caller.fn.String()))
}

func (m *omap) keyTypeOr(fn *ssa.Builtin) types.Type {
	if m != nil {
		return m.keyType
	}
	return fn.Type().(*types.Signature).Params().At(1).Type()
}

// ---------------------------------------------------------------------------
// channels (single goroutine)

func (i *interpreter) chanSend(ch *channel, v value) {
	if ch == nil {
		panic(pathAbort{"blocked", "send on nil channel"})
	}
	if ch.closed {
		panic(targetPanic{"send on closed channel"})
	}
	if len(ch.buf) >= ch.cap {
		panic(pathAbort{"blocked", fmt.Sprintf("send on full channel (cap %d)", ch.cap)})
	}
	ch.buf = append(ch.buf, copyVal(v))
}

func (i *interpreter) chanRecv(ch *channel, elem types.Type) (value, bool) {
	if ch == nil {
		panic(pathAbort{"blocked", "receive from nil channel"})
	}
	if len(ch.buf) > 0 {
		v := ch.buf[0]
		ch.buf = ch.buf[1:]
		return v, true
	}
	if ch.closed {
		return zero(elem), false
	}
	panic(pathAbort{"blocked", "receive from empty channel"})
}

func (fr *frame) doSelect(instr *ssa.Select) value {
	chosen := -1
	var recv value
	recvOk := false
	for k, st := range instr.States {
		ch, _ := fr.get(st.Chan).(*channel)
		if ch == nil {
			continue
		}
		if st.Dir == types.RecvOnly {
			if len(ch.buf) > 0 || ch.closed {
				chosen = k
				recv, recvOk = fr.i.chanRecv(ch, st.Chan.Type().Underlying().(*types.Chan).Elem())
				break
			}
		} else {
			if ch.closed {
				panic(targetPanic{"send on closed channel"})
			}
			if len(ch.buf) < ch.cap {
				chosen = k
				fr.i.chanSend(ch, fr.get(st.Send))
				break
			}
		}
	}
	if chosen < 0 && instr.Blocking {
		panic(pathAbort{"blocked", "select with no ready case"})
	}
	r := tuple{chosen, recvOk}
	for k, st := range instr.States {
		if st.Dir == types.RecvOnly {
			var v value
			if k == chosen && recvOk {
				v = recv
			} else {
				v = zero(st.Chan.Type().Underlying().(*types.Chan).Elem())
			}
			r = append(r, v)
		}
	}
	return r
}

// ---------------------------------------------------------------------------
// if-conversion of pure diamonds/triangles

// pureInstr reports whether instr can be executed speculatively (no side effects, cannot panic,
// given the current concrete values).
func (fr *frame) pureInstr(instr ssa.Instruction) bool {
	switch in := instr.(type) {
	case *ssa.BinOp:
		switch in.Op {
		case token.QUO, token.REM, token.SHL, token.SHR:
			// may panic (div by zero, negative shift): only when divisor/count is a non-zero constant
			if c, ok := in.Y.(*ssa.Const); ok && c.Value != nil {
				if in.Op == token.SHL || in.Op == token.SHR {
					return c.Int64() >= 0
				}
				return c.Int64() != 0
			}
			return false
		}
		// comparisons of interfaces may panic (uncomparable); restrict to basic/pointer
		switch in.X.Type().Underlying().(type) {
		case *types.Basic, *types.Pointer:
			return true
		}
		return false
	case *ssa.UnOp:
		switch in.Op {
		case token.ARROW:
			return false
		case token.MUL:
			p, ok := fr.env[in.X]
			if !ok {
				if g, isG := in.X.(*ssa.Global); isG {
					_, inited := fr.i.globals[g]
					return inited
				}
				return false
			}
			pv, ok := p.(*value)
			return ok && pv != nil
		}
		return true
	case *ssa.Convert:
		_, ok := in.X.Type().Underlying().(*types.Basic)
		_, ok2 := in.Type().Underlying().(*types.Basic)
		if ok && ok2 {
			if b := in.Type().Underlying().(*types.Basic); b.Info()&types.IsString != 0 {
				return false
			}
			if b := in.X.Type().Underlying().(*types.Basic); b.Info()&(types.IsString|types.IsFloat) != 0 {
				return false
			}
			return true
		}
		return false
	case *ssa.ChangeType:
		return true
	case *ssa.FieldAddr:
		p, ok := fr.env[in.X]
		if !ok {
			return false
		}
		pv, ok := p.(*value)
		return ok && pv != nil
	case *ssa.Field, *ssa.Extract, *ssa.DebugRef:
		return true
	}
	return false
}

// ---- post-dominators (per function, cached) ----

type pdomInfo struct {
	ipdom []int // immediate post-dominator block index; -1 = virtual exit
}

func (e *Engine) postDom(fn *ssa.Function) *pdomInfo {
	e.mu.Lock()
	if e.pdomCache == nil {
		e.pdomCache = make(map[*ssa.Function]*pdomInfo)
	}
	if pi, ok := e.pdomCache[fn]; ok {
		e.mu.Unlock()
		return pi
	}
	e.mu.Unlock()
	n := len(fn.Blocks)
	// iterative set-based algorithm on small CFGs: pdom[b] as bitset over n+1 nodes (n = exit)
	words := (n + 1 + 63) / 64
	full := make([]uint64, words)
	for k := 0; k <= n; k++ {
		full[k/64] |= 1 << uint(k%64)
	}
	pd := make([][]uint64, n+1)
	for k := 0; k < n; k++ {
		pd[k] = append([]uint64{}, full...)
	}
	pd[n] = make([]uint64, words)
	pd[n][n/64] |= 1 << uint(n%64)
	changed := true
	for changed {
		changed = false
		for k := n - 1; k >= 0; k-- {
			b := fn.Blocks[k]
			nw := append([]uint64{}, full...)
			succs := []int{}
			for _, s := range b.Succs {
				succs = append(succs, s.Index)
			}
			if len(succs) == 0 {
				succs = []int{n}
			}
			for _, s := range succs {
				for w := range nw {
					nw[w] &= pd[s][w]
				}
			}
			nw[k/64] |= 1 << uint(k%64)
			for w := range nw {
				if nw[w] != pd[k][w] {
					changed = true
				}
			}
			pd[k] = nw
		}
	}
	count := func(bs []uint64) int {
		c := 0
		for _, w := range bs {
			for ; w != 0; w &= w - 1 {
				c++
			}
		}
		return c
	}
	pi := &pdomInfo{ipdom: make([]int, n)}
	for k := 0; k < n; k++ {
		// immediate post-dominator: the strict post-dominator with the largest pdom set
		best, bestCnt := -1, -1
		for j := 0; j <= n; j++ {
			if j == k || pd[k][j/64]&(1<<uint(j%64)) == 0 {
				continue
			}
			c := count(pd[j])
			if c > bestCnt {
				best, bestCnt = j, c
			}
		}
		if best == n {
			best = -1
		}
		pi.ipdom[k] = best
	}
	e.mu.Lock()
	e.pdomCache[fn] = pi
	e.mu.Unlock()
	return pi
}

const maxRegionBlocks = 24

// ifConvert tries to execute the single-entry acyclic region between a symbolic If and its
// immediate post-dominator under guards (if-conversion), merging values with ite terms.
// Only side-effect-free instructions that cannot panic are executed speculatively; anything
// else (calls, stores, possible faults, nested forks) makes it give up (return false) and the
// caller forks instead.
func (fr *frame) ifConvert(instr *ssa.If, c symBool) bool {
	if fr.i.eng.NoIfConvert || fr.i.p.noBranch > 0 {
		return false
	}
	cur := fr.block
	pi := fr.i.eng.postDom(fr.fn)
	jIdx := pi.ipdom[cur.Index]
	var join *ssa.BasicBlock
	if jIdx >= 0 {
		join = fr.fn.Blocks[jIdx]
	}
	// collect region blocks in topological order (DFS post-order reversed), detect cycles
	state := map[*ssa.BasicBlock]int{} // 1 = on stack, 2 = done
	var order []*ssa.BasicBlock
	okRegion := true
	var dfs func(b *ssa.BasicBlock)
	dfs = func(b *ssa.BasicBlock) {
		if !okRegion || b == join {
			return
		}
		if b == cur {
			okRegion = false // loop back to the branch
			return
		}
		switch state[b] {
		case 1:
			okRegion = false
			return
		case 2:
			return
		}
		state[b] = 1
		if len(state) > maxRegionBlocks {
			okRegion = false
			return
		}
		for _, s := range b.Succs {
			dfs(s)
		}
		state[b] = 2
		order = append(order, b)
	}
	dfs(cur.Succs[0])
	dfs(cur.Succs[1])
	if !okRegion {
		return false
	}
	slices.Reverse(order)
	inRegion := func(b *ssa.BasicBlock) bool { return state[b] == 2 }
	// every region block must be entered only from the region or from cur; terminators must be If/Jump/Return
	for _, b := range order {
		for _, p := range b.Preds {
			if p != cur && !inRegion(p) {
				return false
			}
		}
		switch b.Instrs[len(b.Instrs)-1].(type) {
		case *ssa.If, *ssa.Jump:
		case *ssa.Return:
			if join != nil {
				return false
			}
		default:
			return false
		}
	}
	if join == nil && fr.fn.Recover != nil {
		return false
	}
	if join == nil && fr.defers != nil {
		// results may be modified by deferred functions: keep it simple
		return false
	}
	i := fr.i
	tb := i.tb
	type edge struct{ from, to *ssa.BasicBlock }
	eguard := map[edge]*Term{}
	addEdge := func(from, to *ssa.BasicBlock, g *Term) {
		k := edge{from, to}
		if old, ok := eguard[k]; ok {
			eguard[k] = tb.Or(old, g)
		} else {
			eguard[k] = g
		}
	}
	addEdge(cur, cur.Succs[0], c.t)
	addEdge(cur, cur.Succs[1], tb.Not(c.t))
	var defined []ssa.Value
	undo := func() bool {
		for _, v := range defined {
			delete(fr.env, v)
		}
		return false
	}
	// mergePhis computes the values of b's phis from the guarded incoming edges.
	mergePhis := func(b *ssa.BasicBlock) ([]*ssa.Phi, []value, bool) {
		var phis []*ssa.Phi
		for _, in := range b.Instrs {
			if phi, ok := in.(*ssa.Phi); ok {
				phis = append(phis, phi)
			} else {
				break
			}
		}
		vals := make([]value, len(phis))
		for k, phi := range phis {
			var acc value
			have := false
			for pidx, p := range b.Preds {
				g, ok := eguard[edge{p, b}]
				if !ok || (g.IsConst() && g.K == 0) {
					continue
				}
				v := fr.get(phi.Edges[pidx])
				if !have {
					acc, have = v, true
					continue
				}
				m, ok := i.iteValue(g, v, acc)
				if !ok {
					return nil, nil, false
				}
				acc = m
			}
			if !have {
				return nil, nil, false
			}
			vals[k] = acc
		}
		return phis, vals, true
	}
	type retEdge struct {
		g    *Term
		vals []value
	}
	var rets []retEdge
	for _, b := range order {
		// block guard
		g := tb.False()
		for _, p := range b.Preds {
			if eg, ok := eguard[edge{p, b}]; ok {
				g = tb.Or(g, eg)
			}
		}
		if g.IsConst() && g.K == 0 {
			continue // dead under this path condition
		}
		phis, vals, ok := mergePhis(b)
		if !ok {
			return undo()
		}
		for k, phi := range phis {
			fr.env[phi] = vals[k]
			defined = append(defined, phi)
		}
		body := b.Instrs[len(phis) : len(b.Instrs)-1]
		for _, in := range body {
			if !fr.pureInstr(in) {
				return undo()
			}
			if !visitInstrPure(fr, in) {
				return undo()
			}
			if v, ok := in.(ssa.Value); ok {
				defined = append(defined, v)
			}
		}
		switch t := b.Instrs[len(b.Instrs)-1].(type) {
		case *ssa.Jump:
			addEdge(b, b.Succs[0], g)
		case *ssa.If:
			switch cv := fr.get(t.Cond).(type) {
			case bool:
				if cv {
					addEdge(b, b.Succs[0], g)
				} else {
					addEdge(b, b.Succs[1], g)
				}
			case symBool:
				addEdge(b, b.Succs[0], tb.And(g, cv.t))
				addEdge(b, b.Succs[1], tb.And(g, tb.Not(cv.t)))
			default:
				return undo()
			}
		case *ssa.Return:
			var rv []value
			for _, r := range t.Results {
				rv = append(rv, fr.get(r))
			}
			rets = append(rets, retEdge{g, rv})
		}
	}
	if join != nil {
		phis, vals, ok := mergePhis(join)
		if !ok {
			return undo()
		}
		for k, phi := range phis {
			fr.env[phi] = vals[k]
		}
		// pick any predecessor with a live edge as prevBlock (phis are skipped anyway)
		fr.prevBlock = join.Preds[0]
		fr.block = join
		fr.skipPhis = true
		i.p.stats.IfConverted++
		return true
	}
	// region ends in returns: merge result tuples
	if len(rets) == 0 {
		return undo()
	}
	acc := rets[len(rets)-1].vals
	for k := len(rets) - 2; k >= 0; k-- {
		nv := make([]value, len(acc))
		for j := range acc {
			m, ok := i.iteValue(rets[k].g, rets[k].vals[j], acc[j])
			if !ok {
				return undo()
			}
			nv[j] = m
		}
		acc = nv
	}
	switch len(acc) {
	case 0:
	case 1:
		fr.result = acc[0]
	default:
		fr.result = tuple(acc)
	}
	fr.block = nil
	fr.retByConvert = true
	i.p.stats.IfConverted++
	return true
}

// iteValue merges two values under condition c.
func (i *interpreter) iteValue(c *Term, a, b value) (value, bool) {
	switch av := a.(type) {
	case bool, symBool:
		return i.mkBool(i.tb.Ite(c, i.termOf(a), i.termOf(b))), true
	case string:
		if bs, ok := b.(string); ok && bs == av {
			return a, true
		}
		if strLen(a) == strLen(b) {
			ab, bb := strBytes(a), strBytes(b)
			out := make([]value, len(ab))
			for k := range ab {
				out[k] = i.mkInt(i.tb.Ite(c, i.termOf(ab[k]), i.termOf(bb[k])), types.Uint8)
			}
			return mkString(out), true
		}
		return nil, false
	case *value:
		if bp, ok := b.(*value); ok && bp == av {
			return a, true
		}
		return nil, false
	}
	if k, ok := intKind(a); ok {
		if _, ok := intKind(b); ok {
			return i.mkInt(i.tb.Ite(c, i.termOf(a), i.termOf(b)), k), true
		}
	}
	return nil, false
}

// visitInstrPure executes a pure instruction, reporting false if it would fork or panic.
func visitInstrPure(fr *frame, in ssa.Instruction) (ok bool) {
	fr.i.p.noBranch++
	defer func() {
		fr.i.p.noBranch--
		if r := recover(); r != nil {
			if pa, isAbort := r.(pathAbort); isAbort && pa.kind != "speculate" {
				// unsupported etc.: just refuse if-conversion
				ok = false
				return
			}
			ok = false
		}
	}()
	visitInstr(fr, in)
	return true
}

// ---- lockset guards (verifGuard): a cell or map registered with a lock may be read only while the lock is
// held (read or write) and written only while it is write-held. A violation is reported like a failed
// verifAssert with a label naming the function that made the access.
func (fr *frame) checkGuardCell(addr *value, write bool) {
	lk, ok := fr.i.guardCells[addr]
	if !ok {
		return
	}
	fr.checkGuardHeld(lk, write)
}

func (fr *frame) checkGuardMap(m *omap, write bool) {
	if len(fr.i.guardMaps) == 0 {
		return
	}
	lk, ok := fr.i.guardMaps[m]
	if !ok {
		return
	}
	fr.checkGuardHeld(lk, write)
}

func (fr *frame) checkGuardHeld(lk *value, write bool) {
	held := fr.i.locks[lk]
	if (write && held == 1) || (!write && held > 0) {
		return
	}
	what := "read"
	if write {
		what = "written"
	}
	fn := "?"
	if fr.fn != nil {
		fn = fr.fn.String()
	}
	fr.assertCond(false, "lockset: shared data "+what+" without its lock in "+fn)
}

// guardValue registers every cell reachable from cell p without following pointers.
func (i *interpreter) guardValue(p *value, lk *value) {
	i.guardCells[p] = lk
	switch v := (*p).(type) {
	case structure:
		for k := range v {
			i.guardValue(&v[k], lk)
		}
	case array:
		for k := range v {
			i.guardValue(&v[k], lk)
		}
	case *omap:
		if v != nil {
			i.guardMaps[v] = lk
		}
	}
}
