// Derived from golang.org/x/tools/go/ssa/interp (BSD licence, see LICENSE.xtools).

package gosym

import (
	"fmt"
	"go/constant"
	"go/token"
	"go/types"
	"math"
	"unicode/utf8"
	"unsafe"

	"golang.org/x/tools/go/ssa"
)

// If the target program panics, the interpreter panics with this type.
type targetPanic struct {
	v value
}

func (p targetPanic) String() string { return toString(p.v) }

// constValue returns the value of the constant with the
// dynamic type tag appropriate for c.Type().
func constValue(c *ssa.Const) value {
	if c.Value == nil {
		return zero(c.Type()) // typed zero
	}
	if t, ok := c.Type().Underlying().(*types.Basic); ok {
		switch t.Kind() {
		case types.Bool, types.UntypedBool:
			return constant.BoolVal(c.Value)
		case types.Int, types.UntypedInt:
			return int(c.Int64())
		case types.Int8:
			return int8(c.Int64())
		case types.Int16:
			return int16(c.Int64())
		case types.Int32, types.UntypedRune:
			return int32(c.Int64())
		case types.Int64:
			return c.Int64()
		case types.Uint:
			return uint(c.Uint64())
		case types.Uint8:
			return uint8(c.Uint64())
		case types.Uint16:
			return uint16(c.Uint64())
		case types.Uint32:
			return uint32(c.Uint64())
		case types.Uint64:
			return c.Uint64()
		case types.Uintptr:
			return uintptr(c.Uint64())
		case types.Float32:
			return float32(c.Float64())
		case types.Float64, types.UntypedFloat:
			return c.Float64()
		case types.Complex64:
			return complex64(c.Complex128())
		case types.Complex128, types.UntypedComplex:
			return c.Complex128()
		case types.String, types.UntypedString:
			if c.Value.Kind() == constant.String {
				return constant.StringVal(c.Value)
			}
			return string(rune(c.Int64()))
		}
	}
	panic(fmt.Sprintf("constValue: %s", c))
}

// bitsOf returns the two's complement bits of a concrete integer value.
func bitsOf(x value) uint64 {
	switch x := x.(type) {
	case int:
		return uint64(x)
	case int8:
		return uint64(x)
	case int16:
		return uint64(x)
	case int32:
		return uint64(x)
	case int64:
		return uint64(x)
	case uint:
		return uint64(x)
	case uint8:
		return uint64(x)
	case uint16:
		return uint64(x)
	case uint32:
		return uint64(x)
	case uint64:
		return x
	case uintptr:
		return uint64(x)
	}
	panic(fmt.Sprintf("bitsOf: %T", x))
}

// asInt64 converts a concrete integer x to int64.
func asInt64(x value) int64 {
	if _, ok := x.(symInt); ok {
		panic(unsupported("symbolic integer where a concrete one is required"))
	}
	k, ok := intKind(x)
	if !ok {
		panic(fmt.Sprintf("cannot convert %T to int64", x))
	}
	b := bitsOf(x)
	if kindSigned(k) {
		return sext64(b, kindWidth(k))
	}
	return int64(b)
}

// ---------------------------------------------------------------------------
// symbolic helpers on the interpreter

// termOf converts a concrete or symbolic scalar (int or bool) to a term.
func (i *interpreter) termOf(x value) *Term {
	switch x := x.(type) {
	case symInt:
		return x.t
	case symBool:
		return x.t
	case bool:
		return i.tb.Bool(x)
	}
	k, ok := intKind(x)
	if !ok {
		panic(unsupported(fmt.Sprintf("termOf %T", x)))
	}
	return i.tb.Const(bitsOf(x), kindWidth(k))
}

func (i *interpreter) mkInt(t *Term, k types.BasicKind) value {
	if t.IsConst() {
		if kindSigned(k) {
			return intOfKind(uint64(sext64(t.K, t.W)), k)
		}
		return intOfKind(t.K, k)
	}
	return symInt{t, k}
}

func (i *interpreter) mkBool(t *Term) value {
	if t.IsConst() {
		return t.K != 0
	}
	return symBool{t}
}

// boolAnd / boolOr / boolNot on bool-or-symBool values.
func (i *interpreter) boolAnd(a, b value) value {
	return i.mkBool(i.tb.And(i.termOf(a), i.termOf(b)))
}
func (i *interpreter) boolNot(a value) value {
	if b, ok := a.(bool); ok {
		return !b
	}
	return i.mkBool(i.tb.Not(i.termOf(a)))
}

// strBytes returns the bytes of a concrete or symbolic string.
func strBytes(x value) []value {
	switch x := x.(type) {
	case string:
		b := make([]value, len(x))
		for i := 0; i < len(x); i++ {
			b[i] = x[i]
		}
		return b
	case symString:
		return x.b
	}
	panic(fmt.Sprintf("strBytes: %T", x))
}

// mkString builds a string value from bytes, concrete if possible.
func mkString(b []value) value {
	conc := true
	for _, c := range b {
		if _, ok := c.(uint8); !ok {
			conc = false
			break
		}
	}
	if conc {
		bs := make([]byte, len(b))
		for i, c := range b {
			bs[i] = c.(uint8)
		}
		return string(bs)
	}
	cp := make([]value, len(b))
	copy(cp, b)
	return symString{cp}
}

func strLen(x value) int {
	switch x := x.(type) {
	case string:
		return len(x)
	case symString:
		return len(x.b)
	}
	panic(fmt.Sprintf("strLen: %T", x))
}

// strEq returns x == y for strings (bool or symBool).
func (i *interpreter) strEq(x, y value) value {
	if xs, ok := x.(string); ok {
		if ys, ok := y.(string); ok {
			return xs == ys
		}
	}
	xb, yb := strBytes(x), strBytes(y)
	if len(xb) != len(yb) {
		return false
	}
	acc := i.tb.True()
	for j := range xb {
		if xc, ok := xb[j].(uint8); ok {
			if yc, ok := yb[j].(uint8); ok {
				if xc != yc {
					return false
				}
				continue
			}
		}
		acc = i.tb.And(acc, i.tb.Eq(i.termOf(xb[j]), i.termOf(yb[j])))
	}
	return i.mkBool(acc)
}

// strLess returns x < y for strings.
func (i *interpreter) strLess(x, y value) value {
	xb, yb := strBytes(x), strBytes(y)
	n := len(xb)
	if len(yb) < n {
		n = len(yb)
	}
	// result = lt_0 or (eq_0 and (lt_1 or (eq_1 and ... (len(x) < len(y)))))
	res := i.tb.Bool(len(xb) < len(yb))
	for j := n - 1; j >= 0; j-- {
		a, b := i.termOf(xb[j]), i.termOf(yb[j])
		res = i.tb.Or(i.tb.Cmp(OpBvUlt, a, b), i.tb.And(i.tb.Eq(a, b), res))
	}
	return i.mkBool(res)
}

func intBinOp(op token.Token, signed bool) (Op, bool) {
	switch op {
	case token.ADD:
		return OpBvAdd, true
	case token.SUB:
		return OpBvSub, true
	case token.MUL:
		return OpBvMul, true
	case token.QUO:
		if signed {
			return OpBvSdiv, true
		}
		return OpBvUdiv, true
	case token.REM:
		if signed {
			return OpBvSrem, true
		}
		return OpBvUrem, true
	case token.AND:
		return OpBvAnd, true
	case token.OR:
		return OpBvOr, true
	case token.XOR:
		return OpBvXor, true
	}
	return 0, false
}

// binop implements all arithmetic and logical binary operators for
// numeric datatypes and strings, concrete or symbolic.
func binop(fr *frame, op token.Token, t types.Type, x, y value) value {
	i := fr.i
	switch op {
	case token.EQL:
		return i.eqnil(t, x, y)
	case token.NEQ:
		return i.boolNot(i.eqnil(t, x, y))
	}

	// strings
	switch x.(type) {
	case string, symString:
		switch op {
		case token.ADD:
			if xs, ok := x.(string); ok {
				if ys, ok := y.(string); ok {
					return xs + ys
				}
			}
			xb, yb := strBytes(x), strBytes(y)
			b := make([]value, 0, len(xb)+len(yb))
			b = append(append(b, xb...), yb...)
			return mkString(b)
		case token.LSS:
			return i.strLess(x, y)
		case token.GTR:
			return i.strLess(y, x)
		case token.LEQ:
			return i.boolNot(i.strLess(y, x))
		case token.GEQ:
			return i.boolNot(i.strLess(x, y))
		}
		panic(fmt.Sprintf("invalid binary op: %T %s %T", x, op, y))
	}

	// floats (concrete only)
	switch xf := x.(type) {
	case float64:
		yf := y.(float64)
		switch op {
		case token.ADD:
			return xf + yf
		case token.SUB:
			return xf - yf
		case token.MUL:
			return xf * yf
		case token.QUO:
			return xf / yf
		case token.LSS:
			return xf < yf
		case token.LEQ:
			return xf <= yf
		case token.GTR:
			return xf > yf
		case token.GEQ:
			return xf >= yf
		}
	case float32:
		yf := y.(float32)
		switch op {
		case token.ADD:
			return xf + yf
		case token.SUB:
			return xf - yf
		case token.MUL:
			return xf * yf
		case token.QUO:
			return xf / yf
		case token.LSS:
			return xf < yf
		case token.LEQ:
			return xf <= yf
		case token.GTR:
			return xf > yf
		case token.GEQ:
			return xf >= yf
		}
	case complex64, complex128:
		panic(unsupported("complex arithmetic"))
	}

	// booleans: only == and != (handled above)

	kx, ok := intKind(x)
	if !ok {
		panic(fmt.Sprintf("invalid binary op: %T %s %T", x, op, y))
	}
	w := kindWidth(kx)
	signed := kindSigned(kx)
	_, xsym := x.(symInt)
	_, ysym := y.(symInt)

	switch op {
	case token.SHL, token.SHR:
		ky, _ := intKind(y)
		if !ysym {
			// concrete shift count
			var cnt uint64
			if kindSigned(ky) {
				s := asInt64(y)
				if s < 0 {
					panic(targetPanic{"negative shift amount"})
				}
				cnt = uint64(s)
			} else {
				cnt = bitsOf(y)
			}
			if cnt > 64 {
				cnt = 64
			}
			bop := OpBvShl
			if op == token.SHR {
				bop = OpBvLshr
				if signed {
					bop = OpBvAshr
				}
			}
			return i.mkInt(i.tb.Bin(bop, i.termOf(x), i.tb.Const(cnt, w)), kx)
		}
		// symbolic count
		yt := i.termOf(y)
		if kindSigned(ky) {
			neg := i.tb.Cmp(OpBvSlt, yt, i.tb.Const(0, yt.W))
			if fr.branch(neg, "shift-negative") {
				panic(targetPanic{"negative shift amount"})
			}
		}
		// saturate count to operand width
		var cnt *Term
		if yt.W > w {
			big := i.tb.Cmp(OpBvUle, i.tb.Const(uint64(w), yt.W), yt)
			cnt = i.tb.Ite(big, i.tb.Const(uint64(w), w), i.tb.Extract(yt, w-1, 0))
		} else {
			cnt = i.tb.Zext(yt, w)
		}
		bop := OpBvShl
		if op == token.SHR {
			bop = OpBvLshr
			if signed {
				bop = OpBvAshr
			}
		}
		return i.mkInt(i.tb.Bin(bop, i.termOf(x), cnt), kx)

	case token.AND_NOT:
		return i.mkInt(i.tb.Bin(OpBvAnd, i.termOf(x), i.tb.Un(OpBvNot, i.termOf(y))), kx)

	case token.LSS, token.LEQ, token.GTR, token.GEQ:
		if !xsym && !ysym {
			if signed {
				a, b := asInt64(x), asInt64(y)
				switch op {
				case token.LSS:
					return a < b
				case token.LEQ:
					return a <= b
				case token.GTR:
					return a > b
				default:
					return a >= b
				}
			}
			a, b := bitsOf(x), bitsOf(y)
			switch op {
			case token.LSS:
				return a < b
			case token.LEQ:
				return a <= b
			case token.GTR:
				return a > b
			default:
				return a >= b
			}
		}
		a, b := i.termOf(x), i.termOf(y)
		lt, le := OpBvUlt, OpBvUle
		if signed {
			lt, le = OpBvSlt, OpBvSle
		}
		switch op {
		case token.LSS:
			return i.mkBool(i.tb.Cmp(lt, a, b))
		case token.LEQ:
			return i.mkBool(i.tb.Cmp(le, a, b))
		case token.GTR:
			return i.mkBool(i.tb.Cmp(lt, b, a))
		default:
			return i.mkBool(i.tb.Cmp(le, b, a))
		}
	}

	bop, ok := intBinOp(op, signed)
	if !ok {
		panic(fmt.Sprintf("invalid binary op: %T %s %T", x, op, y))
	}
	if op == token.QUO || op == token.REM {
		if ysym {
			z := i.tb.Eq(i.termOf(y), i.tb.Const(0, w))
			if fr.branch(z, "div-by-zero") {
				panic(targetPanic{"runtime error: integer divide by zero"})
			}
		} else if bitsOf(y) == 0 {
			panic(targetPanic{"runtime error: integer divide by zero"})
		}
	}
	return i.mkInt(i.tb.Bin(bop, i.termOf(x), i.termOf(y)), kx)
}

// equals returns x == y (bool or symBool) according to Go's equivalence for type t.
func (i *interpreter) equals(t types.Type, x, y value) value {
	switch x := x.(type) {
	case bool:
		if yb, ok := y.(bool); ok {
			return x == yb
		}
		return i.mkBool(i.tb.Eq(i.termOf(x), i.termOf(y)))
	case symBool:
		return i.mkBool(i.tb.Eq(x.t, i.termOf(y)))
	case float32:
		return x == y.(float32)
	case float64:
		return x == y.(float64)
	case complex64:
		return x == y.(complex64)
	case complex128:
		return x == y.(complex128)
	case string, symString:
		return i.strEq(x, y)
	case *value:
		return x == y.(*value)
	case *channel:
		return x == y.(*channel)
	case *native:
		return x == y.(*native)
	case unsafe.Pointer:
		return x == y.(unsafe.Pointer)
	case structure:
		ys := y.(structure)
		tStruct := t.Underlying().(*types.Struct)
		var acc value = true
		for j, n := 0, tStruct.NumFields(); j < n; j++ {
			if f := tStruct.Field(j); f.Name() != "_" {
				e := i.equals(f.Type(), x[j], ys[j])
				if e == false {
					return false
				}
				acc = i.boolAnd(acc, e)
			}
		}
		return acc
	case array:
		ya := y.(array)
		tElt := t.Underlying().(*types.Array).Elem()
		var acc value = true
		for j := range x {
			e := i.equals(tElt, x[j], ya[j])
			if e == false {
				return false
			}
			acc = i.boolAnd(acc, e)
		}
		return acc
	case iface:
		yi := y.(iface)
		if !sameType(x.t, yi.t) {
			return false
		}
		if x.t == nil {
			return true
		}
		return i.equals(x.t, x.v, yi.v)
	}
	if _, ok := intKind(x); ok {
		_, xs := x.(symInt)
		_, ys := y.(symInt)
		if !xs && !ys {
			return bitsOf(x) == bitsOf(y)
		}
		return i.mkBool(i.tb.Eq(i.termOf(x), i.termOf(y)))
	}
	// Since map, func and slice don't support comparison, this
	// case is only reachable via interface{} values.
	panic(targetPanic{fmt.Sprintf("runtime error: comparing uncomparable type %s", t)})
}

// eqnil returns the comparison x == y using the equivalence relation
// appropriate for type t. If t is a reference type, at most one of x or y may be nil.
func (i *interpreter) eqnil(t types.Type, x, y value) value {
	switch t.Underlying().(type) {
	case *types.Map, *types.Signature, *types.Slice:
		switch x := x.(type) {
		case *omap:
			return (x != nil) == (y.(*omap) != nil)
		case *ssa.Function:
			switch y := y.(type) {
			case *ssa.Function:
				return (x != nil) == (y != nil)
			case *closure:
				return x != nil
			case *native:
				return x != nil
			}
		case *closure:
			switch y := y.(type) {
			case *ssa.Function:
				return (x != nil) == (y != nil)
			}
		case *native:
			if yf, ok := y.(*ssa.Function); ok {
				return yf != nil
			}
		case []value:
			return (x != nil) == (y.([]value) != nil)
		}
		panic(fmt.Sprintf("eqnil(%s): illegal dynamic type: %T", t, x))
	}
	return i.equals(t, x, y)
}

func unop(fr *frame, instr *ssa.UnOp, x value) value {
	i := fr.i
	switch instr.Op {
	case token.ARROW: // receive
		ch := x.(*channel)
		v, ok := fr.i.chanRecv(ch, instr.X.Type().Underlying().(*types.Chan).Elem())
		if instr.CommaOk {
			return tuple{v, ok}
		}
		return v
	case token.SUB:
		switch x := x.(type) {
		case float32:
			return -x
		case float64:
			return -x
		}
		k, ok := intKind(x)
		if ok {
			return i.mkInt(i.tb.Un(OpBvNeg, i.termOf(x)), k)
		}
	case token.MUL:
		switch p := x.(type) {
		case *value:
			if p == nil {
				panic(targetPanic{"runtime error: invalid memory address or nil pointer dereference"})
			}
			if len(i.guardCells) > 0 {
				fr.checkGuardCell(p, false)
			}
			return load(mustDeref(instr.X.Type()), p)
		case *symPtr:
			return i.loadSymPtr(p)
		}
	case token.NOT:
		return i.boolNot(x)
	case token.XOR:
		k, ok := intKind(x)
		if ok {
			return i.mkInt(i.tb.Un(OpBvNot, i.termOf(x)), k)
		}
	}
	panic(fmt.Sprintf("invalid unary op %s %T", instr.Op, x))
}

// loadSymPtr reads elems[idx] as an ite chain (scalars only).
func (i *interpreter) loadSymPtr(p *symPtr) value {
	if len(p.elems) == 0 {
		panic("loadSymPtr: empty")
	}
	return i.selectValue(p.elems, p.idx)
}

// selectValue returns elems[idx] for symbolic idx assumed in range.
func (i *interpreter) selectValue(elems []value, idx symInt) value {
	// booleans or integers only
	last := elems[len(elems)-1]
	if _, ok := last.(bool); ok {
		acc := i.termOf(last)
		for j := len(elems) - 2; j >= 0; j-- {
			c := i.tb.Eq(idx.t, i.tb.Const(uint64(j), idx.t.W))
			acc = i.tb.Ite(c, i.termOf(elems[j]), acc)
		}
		return i.mkBool(acc)
	}
	if _, ok := last.(symBool); ok {
		acc := i.termOf(last)
		for j := len(elems) - 2; j >= 0; j-- {
			c := i.tb.Eq(idx.t, i.tb.Const(uint64(j), idx.t.W))
			acc = i.tb.Ite(c, i.termOf(elems[j]), acc)
		}
		return i.mkBool(acc)
	}
	k, ok := intKind(last)
	if !ok {
		panic(unsupported(fmt.Sprintf("symbolic index into elements of type %T", last)))
	}
	{
		allConc := true
		for _, e := range elems {
			if _, sym := e.(symInt); sym {
				allConc = false
				break
			}
		}
		if allConc && len(elems) >= 4 {
			tab := make([]uint64, len(elems))
			for j, e := range elems {
				tab[j] = bitsOf(e) & mask(kindWidth(k))
			}
			return i.mkInt(i.tb.Table(tab, kindWidth(k), idx.t), k)
		}
	}
	// index is itself a constant-leaf ite tree (e.g. a previous table lookup) and the table is concrete:
	// push the lookup into the leaves
	if isLeafTree(idx.t) {
		allConc := true
		for _, e := range elems {
			if _, sym := e.(symInt); sym {
				allConc = false
				break
			}
		}
		if allConc {
			n := uint64(len(elems))
			if r, ok := i.tb.leafMap(idx.t, kindWidth(k), func(kk uint64) uint64 {
				if kk >= n {
					return 0 // excluded by the bounds check on this path
				}
				return bitsOf(elems[kk])
			}); ok {
				return i.mkInt(r, k)
			}
		}
	}
	// group equal concrete runs to keep the chain small
	acc := i.termOf(last)
	for j := len(elems) - 2; j >= 0; j-- {
		e := i.termOf(elems[j])
		if e == acc {
			continue
		}
		// idx <= j ? ... : acc  would need ordering; use equality chain but skip runs:
		c := i.tb.Eq(idx.t, i.tb.Const(uint64(j), idx.t.W))
		acc = i.tb.Ite(c, e, acc)
	}
	return i.mkInt(acc, k)
}

func (i *interpreter) storeSymPtr(p *symPtr, v value) {
	for j := range p.elems {
		c := i.tb.Eq(p.idx.t, i.tb.Const(uint64(j), p.idx.t.W))
		old := p.elems[j]
		if k, ok := intKind(old); ok {
			p.elems[j] = i.mkInt(i.tb.Ite(c, i.termOf(v), i.termOf(old)), k)
		} else {
			switch old.(type) {
			case bool, symBool:
				p.elems[j] = i.mkBool(i.tb.Ite(c, i.termOf(v), i.termOf(old)))
			default:
				panic(unsupported(fmt.Sprintf("symbolic-index store of %T", old)))
			}
		}
	}
}

// typeAssert checks whether dynamic type of itf is instr.AssertedType.
func typeAssert(i *interpreter, instr *ssa.TypeAssert, itf iface) value {
	var v value
	err := ""
	if itf.t == nil {
		err = fmt.Sprintf("interface conversion: interface is nil, not %s", instr.AssertedType)
	} else if idst, ok := instr.AssertedType.Underlying().(*types.Interface); ok {
		v = itf
		err = checkInterface(i, idst, itf)
	} else if types.Identical(itf.t, instr.AssertedType) {
		v = itf.v // extract value
	} else {
		err = fmt.Sprintf("interface conversion: interface is %s, not %s", itf.t, instr.AssertedType)
	}
	if err != "" {
		if !instr.CommaOk {
			panic(targetPanic{err})
		}
		return tuple{zero(instr.AssertedType), false}
	}
	if instr.CommaOk {
		return tuple{v, true}
	}
	return v
}

func checkInterface(i *interpreter, itype *types.Interface, x iface) string {
	if meth, _ := types.MissingMethod(x.t, itype, true); meth != nil {
		return fmt.Sprintf("interface conversion: %v is not %v: missing method %s",
			x.t, itype, meth.Name())
	}
	return "" // ok
}

// sliceOp returns x[lo:hi:max].  Any of lo, hi and max may be nil.
func sliceOp(fr *frame, x, lo, hi, max value) value {
	var Len, Cap int
	switch x := x.(type) {
	case string, symString:
		Len = strLen(x)
		Cap = Len
	case []value:
		Len = len(x)
		Cap = cap(x)
	case *value: // *array
		if x == nil {
			panic(targetPanic{"runtime error: invalid memory address or nil pointer dereference"})
		}
		a := (*x).(array)
		Len = len(a)
		Cap = cap(a)
	}
	_, isStr := x.(string)
	if _, ok := x.(symString); ok {
		isStr = true
	}

	conc := func(v value, what string, upper int) int64 {
		if s, ok := v.(symInt); ok {
			// case split over the feasible values 0..upper
			return int64(fr.concretizeRange(s, 0, upper, what))
		}
		return asInt64(v)
	}
	l := int64(0)
	h := int64(Len)
	m := int64(Cap)
	if max != nil {
		m = conc(max, "slice-max", Cap)
	}
	lim := Cap
	if isStr {
		lim = Len
	}
	if hi != nil {
		h = conc(hi, "slice-high", lim)
	}
	if lo != nil {
		l = conc(lo, "slice-low", lim)
	}
	if l < 0 || h < l || (isStr && h > int64(Len)) || (!isStr && (h > m || m > int64(Cap))) {
		panic(targetPanic{fmt.Sprintf("runtime error: slice bounds out of range [%d:%d:%d] with capacity %d", l, h, m, Cap)})
	}
	switch x := x.(type) {
	case string:
		return x[l:h]
	case symString:
		return mkString(x.b[l:h])
	case []value:
		return x[l:h:m]
	case *value: // *array
		a := (*x).(array)
		return []value(a)[l:h:m]
	}
	panic(fmt.Sprintf("slice: unexpected X type: %T", x))
}

// widen for conv
func widenFloat(x value) (float64, bool) {
	switch x := x.(type) {
	case float32:
		return float64(x), true
	case float64:
		return x, true
	}
	return 0, false
}

// conv converts the value x of type t_src to type t_dst.
func conv(fr *frame, t_dst, t_src types.Type, x value) value {
	i := fr.i
	ut_src := t_src.Underlying()
	ut_dst := t_dst.Underlying()

	switch ut_src := ut_src.(type) {
	case *types.Pointer:
		if b, ok := ut_dst.(*types.Basic); ok && b.Kind() == types.UnsafePointer {
			switch p := x.(type) {
			case *value:
				return unsafe.Pointer(p)
			}
			panic(unsupported("conversion of symbolic pointer to unsafe.Pointer"))
		}

	case *types.Slice:
		// []byte or []rune -> string
		switch ut_src.Elem().Underlying().(*types.Basic).Kind() {
		case types.Byte:
			return mkString(x.([]value))
		case types.Rune:
			xs := x.([]value)
			r := make([]rune, 0, len(xs))
			for j := range xs {
				rv, ok := xs[j].(rune)
				if !ok {
					panic(unsupported("[]rune -> string with symbolic rune"))
				}
				r = append(r, rv)
			}
			return string(r)
		}

	case *types.Basic:
		// string -> []rune, []byte or string?
		switch s := x.(type) {
		case string:
			switch ut_dst := ut_dst.(type) {
			case *types.Slice:
				var res []value
				switch ut_dst.Elem().Underlying().(*types.Basic).Kind() {
				case types.Rune:
					for _, r := range []rune(s) {
						res = append(res, r)
					}
					if res == nil {
						res = []value{}
					}
					return res
				case types.Byte:
					res = make([]value, len(s))
					for j := 0; j < len(s); j++ {
						res[j] = s[j]
					}
					return res
				}
			case *types.Basic:
				if ut_dst.Kind() == types.String {
					return s
				}
			}
			panic(fmt.Sprintf("unsupported conversion: %s  -> %s", t_src, t_dst))
		case symString:
			switch ut_dst := ut_dst.(type) {
			case *types.Slice:
				switch ut_dst.Elem().Underlying().(*types.Basic).Kind() {
				case types.Byte:
					res := make([]value, len(s.b))
					copy(res, s.b)
					return res
				case types.Rune:
					return fr.symStringToRunes(s)
				}
			case *types.Basic:
				if ut_dst.Kind() == types.String {
					return s
				}
			}
			panic(unsupported(fmt.Sprintf("conversion of symbolic string to %s", t_dst)))
		}

		if ut_src.Kind() == types.UnsafePointer {
			if _, ok := ut_dst.(*types.Pointer); ok {
				if p, ok := x.(unsafe.Pointer); ok && p == nil {
					return (*value)(nil)
				}
				// round trip *T -> unsafe.Pointer -> *T keeps the cell
				return (*value)(x.(unsafe.Pointer))
			}
			if b, ok := ut_dst.(*types.Basic); ok && b.Kind() == types.Uintptr {
				return uintptr(x.(unsafe.Pointer))
			}
		}

		// integer -> string?
		if ut_src.Info()&types.IsInteger != 0 {
			if bd, ok := ut_dst.(*types.Basic); ok && bd.Kind() == types.String {
				if sx, ok := x.(symInt); ok {
					return fr.runeToString(sx)
				}
				return string(rune(asInt64(x)))
			}
		}

		bd, ok := ut_dst.(*types.Basic)
		if !ok {
			break
		}
		if bd.Kind() == types.UnsafePointer && ut_src.Kind() == types.Uintptr {
			panic(unsupported("uintptr -> unsafe.Pointer"))
		}

		if f, ok := widenFloat(x); ok {
			switch bd.Kind() {
			case types.Float32:
				return float32(f)
			case types.Float64:
				return f
			case types.Int:
				return int(f)
			case types.Int8:
				return int8(f)
			case types.Int16:
				return int16(f)
			case types.Int32:
				return int32(f)
			case types.Int64:
				return int64(f)
			case types.Uint:
				return uint(f)
			case types.Uint8:
				return uint8(f)
			case types.Uint16:
				return uint16(f)
			case types.Uint32:
				return uint32(f)
			case types.Uint64:
				return uint64(f)
			case types.Uintptr:
				return uintptr(f)
			}
		}
		if c, ok := x.(complex128); ok {
			switch bd.Kind() {
			case types.Complex64:
				return complex64(c)
			case types.Complex128:
				return c
			}
		}
		if c, ok := x.(complex64); ok {
			switch bd.Kind() {
			case types.Complex64:
				return c
			case types.Complex128:
				return complex128(c)
			}
		}

		if ks, ok := intKind(x); ok {
			kd := bd.Kind()
			switch kd {
			case types.Float32, types.Float64:
				if _, sym := x.(symInt); sym {
					panic(unsupported("symbolic integer -> float"))
				}
				var f float64
				if kindSigned(ks) {
					f = float64(asInt64(x))
				} else {
					f = float64(bitsOf(x))
				}
				if kd == types.Float32 {
					return float32(f)
				}
				return f
			case types.Int, types.Int8, types.Int16, types.Int32, types.Int64,
				types.Uint, types.Uint8, types.Uint16, types.Uint32, types.Uint64, types.Uintptr:
				wd := kindWidth(kd)
				tx := i.termOf(x)
				var r *Term
				if wd <= tx.W {
					r = i.tb.Extract(tx, wd-1, 0)
				} else if kindSigned(ks) {
					r = i.tb.Sext(tx, wd)
				} else {
					r = i.tb.Zext(tx, wd)
				}
				return i.mkInt(r, kd)
			}
		}
	}

	panic(fmt.Sprintf("unsupported conversion: %s  -> %s, dynamic type %T", t_src, t_dst, x))
}

// symStringToRunes decodes a symbolic string; forks on byte classes.
func (fr *frame) symStringToRunes(s symString) value {
	res := []value{}
	it := &symStringIter{fr: fr, b: s.b}
	for {
		t := it.next()
		if t[0] != true {
			break
		}
		res = append(res, t[2])
	}
	return res
}

// sliceToArrayPointer converts the value x of type slice to type t_dst
func sliceToArrayPointer(t_dst, t_src types.Type, x value) value {
	if _, ok := t_src.Underlying().(*types.Slice); ok {
		if ptr, ok := t_dst.Underlying().(*types.Pointer); ok {
			if arr, ok := ptr.Elem().Underlying().(*types.Array); ok {
				x := x.([]value)
				if arr.Len() > int64(len(x)) {
					panic(targetPanic{"runtime error: cannot convert slice to array pointer: length too short"})
				}
				if x == nil {
					return zero(t_dst)
				}
				v := value(array(x[:arr.Len()]))
				return &v
			}
		}
	}
	panic(fmt.Sprintf("unsupported conversion: %s  -> %s, dynamic type %T", t_src, t_dst, x))
}

// ---------------------------------------------------------------------------
// string iteration

type stringIter struct {
	s string
	i int
}

func (it *stringIter) next() tuple {
	if it.i >= len(it.s) {
		return tuple{false, nil, nil}
	}
	r, n := utf8.DecodeRuneInString(it.s[it.i:])
	t := tuple{true, it.i, r}
	it.i += n
	return t
}

// symStringIter decodes UTF-8 from bytes that may be symbolic.
type symStringIter struct {
	fr *frame
	b  []value
	i  int
}

func (it *symStringIter) next() tuple {
	if it.i >= len(it.b) {
		return tuple{false, nil, nil}
	}
	fr := it.fr
	tb := fr.i.tb
	pos := it.i
	b0 := it.b[pos]
	if c, ok := b0.(uint8); ok && c < utf8.RuneSelf {
		it.i++
		return tuple{true, pos, rune(c)}
	}
	if s0, ok := b0.(symInt); ok {
		if fr.branch(tb.Cmp(OpBvUlt, s0.t, tb.Const(0x80, 8)), "utf8-ascii") {
			it.i++
			return tuple{true, pos, fr.i.mkInt(tb.Zext(s0.t, 32), types.Int32)}
		}
	}
	// multi-byte: concretize up to 4 bytes by case analysis on the decoder's own branches
	r, n := fr.decodeRuneSym(it.b[pos:])
	it.i += n
	return tuple{true, pos, r}
}

// decodeRuneSym mirrors utf8.DecodeRune for a first byte known to be >= 0x80.
func (fr *frame) decodeRuneSym(p []value) (value, int) {
	i := fr.i
	tb := i.tb
	t := func(v value) *Term { return i.termOf(v) }
	c8 := func(v uint64) *Term { return tb.Const(v, 8) }
	inRange := func(x *Term, lo, hi uint64) *Term {
		return tb.And(tb.Cmp(OpBvUle, c8(lo), x), tb.Cmp(OpBvUle, x, c8(hi)))
	}
	bad := func() (value, int) { return rune(utf8.RuneError), 1 }
	b0 := t(p[0])
	z32 := func(x *Term) *Term { return tb.Zext(x, 32) }
	cont := func(x *Term) *Term { return inRange(x, 0x80, 0xBF) }
	// 2-byte: C2..DF
	if fr.branch(inRange(b0, 0xC2, 0xDF), "utf8-2") {
		if len(p) < 2 || !fr.branch(cont(t(p[1])), "utf8-2c") {
			return bad()
		}
		r := tb.Bin(OpBvOr, tb.Bin(OpBvShl, tb.Bin(OpBvAnd, z32(b0), tb.Const(0x1F, 32)), tb.Const(6, 32)),
			tb.Bin(OpBvAnd, z32(t(p[1])), tb.Const(0x3F, 32)))
		return i.mkInt(r, types.Int32), 2
	}
	// 3-byte: E0..EF with first-continuation ranges
	if fr.branch(inRange(b0, 0xE0, 0xEF), "utf8-3") {
		if len(p) < 3 {
			return bad()
		}
		b1, b2 := t(p[1]), t(p[2])
		lo := tb.Ite(tb.Eq(b0, c8(0xE0)), c8(0xA0), c8(0x80))
		hi := tb.Ite(tb.Eq(b0, c8(0xED)), c8(0x9F), c8(0xBF))
		ok := tb.And(tb.And(tb.Cmp(OpBvUle, lo, b1), tb.Cmp(OpBvUle, b1, hi)), cont(b2))
		if !fr.branch(ok, "utf8-3c") {
			return bad()
		}
		r := tb.Bin(OpBvOr, tb.Bin(OpBvOr,
			tb.Bin(OpBvShl, tb.Bin(OpBvAnd, z32(b0), tb.Const(0x0F, 32)), tb.Const(12, 32)),
			tb.Bin(OpBvShl, tb.Bin(OpBvAnd, z32(b1), tb.Const(0x3F, 32)), tb.Const(6, 32))),
			tb.Bin(OpBvAnd, z32(b2), tb.Const(0x3F, 32)))
		return i.mkInt(r, types.Int32), 3
	}
	// 4-byte: F0..F4
	if fr.branch(inRange(b0, 0xF0, 0xF4), "utf8-4") {
		if len(p) < 4 {
			return bad()
		}
		b1, b2, b3 := t(p[1]), t(p[2]), t(p[3])
		lo := tb.Ite(tb.Eq(b0, c8(0xF0)), c8(0x90), c8(0x80))
		hi := tb.Ite(tb.Eq(b0, c8(0xF4)), c8(0x8F), c8(0xBF))
		ok := tb.And(tb.And(tb.And(tb.Cmp(OpBvUle, lo, b1), tb.Cmp(OpBvUle, b1, hi)), cont(b2)), cont(b3))
		if !fr.branch(ok, "utf8-4c") {
			return bad()
		}
		r := tb.Bin(OpBvOr, tb.Bin(OpBvOr, tb.Bin(OpBvOr,
			tb.Bin(OpBvShl, tb.Bin(OpBvAnd, z32(b0), tb.Const(0x07, 32)), tb.Const(18, 32)),
			tb.Bin(OpBvShl, tb.Bin(OpBvAnd, z32(b1), tb.Const(0x3F, 32)), tb.Const(12, 32))),
			tb.Bin(OpBvShl, tb.Bin(OpBvAnd, z32(b2), tb.Const(0x3F, 32)), tb.Const(6, 32))),
			tb.Bin(OpBvAnd, z32(b3), tb.Const(0x3F, 32)))
		return i.mkInt(r, types.Int32), 4
	}
	return bad()
}

func rangeIter(fr *frame, x value, t types.Type) iter {
	switch x := x.(type) {
	case *omap:
		return &mapIter{m: x}
	case string:
		return &stringIter{s: x}
	case symString:
		return &symStringIter{fr: fr, b: x.b}
	}
	panic(fmt.Sprintf("cannot range over %T", x))
}

func fmin64(x, y float64) float64 { return math.Min(x, y) }

// runeToString implements string(r) for a symbolic integer r (forks on the UTF-8 length class).
func (fr *frame) runeToString(x symInt) value {
	i := fr.i
	tb := i.tb
	w := x.t.W
	var r *Term // 32-bit code point
	if w >= 32 {
		r = tb.Extract(x.t, 31, 0)
		if w > 32 {
			// values outside int32 range are invalid runes
			var fits *Term
			if kindSigned(x.k) {
				fits = tb.Eq(tb.Sext(r, w), x.t)
			} else {
				fits = tb.Eq(tb.Zext(r, w), x.t)
			}
			if !fr.branch(fits, "rune-fits") {
				return "\uFFFD"
			}
		}
	} else if kindSigned(x.k) {
		r = tb.Sext(x.t, 32)
	} else {
		r = tb.Zext(x.t, 32)
	}
	c := func(v uint64) *Term { return tb.Const(v, 32) }
	b8 := func(t *Term) value { return i.mkInt(tb.Extract(t, 7, 0), types.Uint8) }
	or := func(a *Term, k uint64) *Term { return tb.Bin(OpBvOr, a, c(k)) }
	and := func(a *Term, k uint64) *Term { return tb.Bin(OpBvAnd, a, c(k)) }
	shr := func(a *Term, k uint64) *Term { return tb.Bin(OpBvLshr, a, c(k)) }
	if fr.branch(tb.Cmp(OpBvUlt, r, c(0x80)), "rune-1") {
		return mkString([]value{b8(r)})
	}
	if fr.branch(tb.Cmp(OpBvUlt, r, c(0x800)), "rune-2") {
		return mkString([]value{b8(or(shr(r, 6), 0xC0)), b8(or(and(r, 0x3F), 0x80))})
	}
	valid := tb.And(tb.Cmp(OpBvUle, r, c(0x10FFFF)), tb.Not(tb.And(tb.Cmp(OpBvUle, c(0xD800), r), tb.Cmp(OpBvUle, r, c(0xDFFF)))))
	if !fr.branch(valid, "rune-valid") {
		return "\uFFFD"
	}
	if fr.branch(tb.Cmp(OpBvUlt, r, c(0x10000)), "rune-3") {
		return mkString([]value{b8(or(shr(r, 12), 0xE0)), b8(or(and(shr(r, 6), 0x3F), 0x80)), b8(or(and(r, 0x3F), 0x80))})
	}
	return mkString([]value{b8(or(shr(r, 18), 0xF0)), b8(or(and(shr(r, 12), 0x3F), 0x80)), b8(or(and(shr(r, 6), 0x3F), 0x80)), b8(or(and(r, 0x3F), 0x80))})
}
