// gosym: bounded symbolic execution of Go (go/ssa) harnesses with an SMT solver.
package main

import (
	"encoding/json"
	"flag"
	"fmt"
	"os"
	"path/filepath"
	"regexp"
	"sort"
	"strings"
	"time"

	"verif/engine/gosym"
)

type harnessOut struct {
	Name            string                `json:"name"`
	Paths           int                   `json:"paths"`
	PathsCompleted  int                   `json:"paths_completed"`
	PathsAssumeCut  int                   `json:"paths_assume_cut"`
	PathsBlocked    int                   `json:"paths_blocked"`
	Obligations     map[string]int        `json:"obligations"`
	Discharged      map[string]int        `json:"discharged"`
	DischargedBySMT int                   `json:"discharged_by_smt"`
	Reached         map[string]int        `json:"reached"`
	Violations      []gosym.Violation     `json:"violations"`
	Inconclusive    []string              `json:"inconclusive"`
	Queries         int                   `json:"queries"`
	SolverTimeS     float64               `json:"solver_time_s"`
	Branches        int                   `json:"branches"`
	IfConverted     int                   `json:"if_converted"`
	Steps           int64                 `json:"steps"`
	MaxDecisions    int                   `json:"max_decisions"`
	Funcs           []string              `json:"funcs"`
	WallS           float64               `json:"wall_s"`
	Samples         [][]gosym.ReplayValue `json:"samples"`
	Fallbacks       map[string]int        `json:"fallbacks,omitempty"`
	ForkSites       map[string]int        `json:"fork_sites,omitempty"`
}

type output struct {
	Dir       string         `json:"dir"`
	Tags      string         `json:"tags"`
	LoadS     float64        `json:"load_s"`
	NumPkgs   int            `json:"num_pkgs"`
	Solver    string         `json:"solver"`
	Harnesses []harnessOut   `json:"harnesses"`
	Stubs     map[string]int `json:"stubs"`
	Error     string         `json:"error,omitempty"`
}

func main() {
	dir := flag.String("dir", "", "package directory")
	tags := flag.String("tags", "verif", "build tags")
	overlay := flag.String("overlay", "", "comma separated real files to overlay into -dir as zz_verif_<base>")
	run := flag.String("run", ".*", "regexp selecting Harness_* functions")
	out := flag.String("out", "", "output JSON file (default stdout)")
	workers := flag.Int("workers", 8, "parallel workers")
	solver := flag.String("solver", "z3-new", "z3 | z3-new | cvc5")
	timeout := flag.Int("timeout", 10000, "per-query timeout (ms)")
	maxPaths := flag.Int("maxpaths", 200000, "path budget per harness")
	maxSteps := flag.Int64("maxsteps", 50_000_000, "instruction budget per path")
	budget := flag.Duration("budget", 0, "wall-clock budget per harness (0 = none)")
	trace := flag.Bool("trace", false, "trace instructions")
	noModel := flag.Bool("nomodelguide", false, "disable model-guided branching")
	noIfc := flag.Bool("noifconvert", false, "disable if-conversion")
	skipInit := flag.String("skipinit", "", "comma separated package paths whose init is not run")
	flag.Parse()

	res := output{Dir: *dir, Tags: *tags, Solver: *solver}
	emit := func() {
		b, _ := json.MarshalIndent(res, "", " ")
		if *out == "" {
			os.Stdout.Write(b)
			fmt.Println()
		} else {
			os.WriteFile(*out, b, 0o644)
		}
	}
	ov := map[string]string{}
	if *overlay != "" {
		for _, f := range strings.Split(*overlay, ",") {
			base := filepath.Base(f)
			if !strings.HasPrefix(base, "zz_verif") {
				base = "zz_verif_" + base
			}
			ov[filepath.Join(*dir, base)] = f
		}
	}
	l, err := gosym.Load(gosym.LoadConfig{Dir: *dir, Tags: *tags, Overlay: ov})
	if err != nil {
		res.Error = err.Error()
		emit()
		fmt.Fprintln(os.Stderr, "load error:", err)
		os.Exit(2)
	}
	res.LoadS = l.LoadTime.Seconds()
	res.NumPkgs = l.NumPkgs
	eng := gosym.NewEngine(l)
	eng.Workers = *workers
	eng.SolverKind = *solver
	eng.TimeoutMs = *timeout
	eng.MaxPaths = *maxPaths
	eng.MaxSteps = *maxSteps
	eng.Trace = *trace
	eng.HarnessBudget = *budget
	eng.NoIfConvert = *noIfc
	eng.NoModelGuide = *noModel
	for _, p := range strings.Split(*skipInit, ",") {
		if p != "" {
			eng.SkipInitPkgs[p] = true
		}
	}
	re := regexp.MustCompile(*run)
	hs := l.Harnesses(re)
	if len(hs) == 0 {
		res.Error = "no harness matches " + *run
		emit()
		os.Exit(2)
	}
	for _, h := range hs {
		t0 := time.Now()
		r := eng.RunHarness(h)
		ho := harnessOut{Name: r.Name, Paths: r.Paths, PathsCompleted: r.PathsCompleted, PathsAssumeCut: r.PathsAssumeCut,
			PathsBlocked: r.PathsBlocked, Obligations: r.Obligations, Discharged: r.Discharged, DischargedBySMT: r.DischargedBySMT,
			Reached: r.Reached, Violations: r.Violations, Inconclusive: r.Inconclusive, Queries: r.Queries,
			SolverTimeS: r.SolverTime.Seconds(), Branches: r.Branches, IfConverted: r.IfConverted, Steps: r.Steps,
			MaxDecisions: r.MaxDecisions, WallS: time.Since(t0).Seconds(), Samples: r.SampleInputs, Fallbacks: r.Fallbacks, ForkSites: r.ForkSites}
		for f := range r.Funcs {
			ho.Funcs = append(ho.Funcs, f)
		}
		sort.Strings(ho.Funcs)
		res.Harnesses = append(res.Harnesses, ho)
		fmt.Fprintf(os.Stderr, "%s: paths=%d (done %d, cut %d, blocked %d) queries=%d viol=%d incon=%d wall=%.1fs\n",
			r.Name, r.Paths, r.PathsCompleted, r.PathsAssumeCut, r.PathsBlocked, r.Queries, len(r.Violations), len(r.Inconclusive), time.Since(t0).Seconds())
	}
	res.Stubs = eng.StubsHit
	emit()
}
