#!/bin/bash
# seed_regress.sh [pattern]: re-run every stored seeded change against the current checks in a scratch worktree
# (/tmp/wt/regress; /repo is not touched) and print one line per seed. Seeds whose meta.json says "missed" are
# expected to stay undetected; every other seed must produce a VIOLATION (exit 1).
pat=${1:-.}
out=/verif/.work/seed_regress.log
mkdir -p /verif/.work; : > $out
bad=0
for d in /verif/seeded/*/; do
  id=$(basename $d)
  echo $id | grep -qE "$pat" || continue
  [ -f "$d/meta.json" ] || continue
  prop=$(python3 -c "import json;print(json.load(open('$d/meta.json'))['property'])")
  want=$(python3 -c "import json;print(json.load(open('$d/meta.json')).get('status',''))")
  res=$(SEED_WT=/tmp/wt/regress /verif/seed_eval.sh $d $prop 2>&1 | grep -E "^check .* exit" | sed 's/.*exit //')
  st=ok
  if [ "$want" = missed ]; then [ "$res" = 0 ] || st="CHANGED(now exit $res)"; else [ "$res" = 1 ] || { st="REGRESSION(exit $res)"; bad=1; }; fi
  echo "$id $prop expected=$want check-exit=$res $st" | tee -a $out
done
git -C /repo worktree remove --force /tmp/wt/regress 2>/dev/null
exit $bad
