#!/usr/bin/env python3
"""Generates DESIGN.md from design/*.md + specs.json + manifest_meta.json + known_findings.json + seeded/*/meta.json."""
import json, os, glob
V = os.path.dirname(os.path.abspath(__file__))
rd = lambda *p: open(os.path.join(V, *p)).read()
specs = json.loads(rd("harness", "specs.json"))
meta = json.loads(rd("manifest_meta.json"))
kf = json.loads(rd("known_findings.json"))
props = [json.loads(l) for l in open(os.path.join(V, "properties.jsonl"))]
out = [rd("design", "head.md")]
for p in props:
    pid = p["id"]
    out.append("### %s — %s\n" % (pid, p["title"]))
    if pid not in specs or pid not in meta["claimed"]:
        out.append("Not claimed: %s\n" % meta["not_applicable"].get(pid, "no check built"))
        continue
    s, m = specs[pid], meta["claimed"][pid]
    out.append("**Claim.** %s\n" % m["text"])
    out.append("**Caveat.** %s\n" % m["note"])
    out.append("**Units.**\n")
    for u in s["units"]:
        out.append("* `%s` (tags `%s`; harness files %s): quick `%s`; thorough `%s`" % (
            u["pkg"], u.get("tags", "verif"), ", ".join("`%s`" % f for f in u["files"]), u.get("quick"), u.get("thorough", u.get("quick"))))
    out.append("\n**Bounds (quick).** %s\n" % s["bounds"]["quick"])
    if s["bounds"].get("thorough"):
        out.append("**Bounds (thorough).** %s\n" % s["bounds"]["thorough"])
    if s.get("outside"):
        out.append("**Outside the claim.** %s\n" % s["outside"])
    if s.get("assumptions"):
        out.append("**Assumptions and stubs.**\n")
        out += ["* " + a for a in s["assumptions"]]
        out.append("")
    np = os.path.join(V, "design", "notes", pid + ".md")
    if os.path.exists(np):
        out.append("**Notes.** " + open(np).read().strip() + "\n")
tail = rd("design", "tail.md")
ft = ["| property | commit | what failed |", "|---|---|---|"]
for f in kf["fixed"]:
    w = f["what"]
    w = w.split(" ", 3)[-1] if w.startswith("fixed:") else w
    ft.append("| %s | %s | %s |" % (f["property"], f.get("commit", ""), w.replace("|", "\\|")))
kt = ["Known findings (genuine, recorded, not repaired):", "", "| property | label (prefix) | what fails |", "|---|---|---|"]
for f in kf["findings"]:
    kt.append("| %s | `%s` | %s |" % (f["property"], f.get("label") or f.get("label_prefix"), f.get("what", "").replace("|", "\\|")))
st = ["| seed | property | change | result | detected by |", "|---|---|---|---|---|"]
n = c = 0
for mp in sorted(glob.glob(os.path.join(V, "seeded", "*", "meta.json"))):
    m = json.load(open(mp))
    n += 1
    c += m.get("status", "").startswith("caught")
    st.append("| %s | %s | %s | %s | %s |" % (m["seed"], m["property"], m.get("summary", ""), m.get("status", ""), m.get("detected_by", "")))
st.append("")
st.append("%d of %d seeded changes are detected by the registered quick checks." % (c, n))
tail = tail.replace("{{FIXED_TABLE}}", "Fixed (one `fix:` commit each):\n\n" + "\n".join(ft)).replace("{{KNOWN_TABLE}}", "\n".join(kt)).replace("{{SEED_TABLE}}", "\n".join(st))
# function coverage map from the evidence files of the last quick runs on /repo
import re
enc = set()
for f in glob.glob(os.path.join(V, "evidence", "*.json")):
    try:
        for fn in json.load(open(f))["coverage"].get("functions_encoded", []):
            enc.add(fn)
    except Exception:
        pass
short = set()
for f in enc:
    if "tinode/chat" in f:
        m = re.search(r"\.([A-Za-z0-9_]+)(\$\d+)?$", f)
        if m:
            short.add(m.group(1))
cov = ["--------------------------------------------------------------------------------------", "",
       "## 9. Which functions of tinode/chat the checks execute", "",
       "Generated from the `functions_encoded` lists of the evidence files (last quick run of every check on `/repo`;",
       "matching by function name). It shows where a change could hide from every check: a function that no harness",
       "executes can be altered without any check noticing.", ""]
tot = hit = 0
rows = []
for sub in ["server", "server/store", "server/store/types", "server/auth/token", "server/auth/code", "server/auth/basic", "server/media", "server/ringhash", "server/drafty", "server/db/mysql"]:
    d = os.path.join("/repo", sub)
    if not os.path.isdir(d):
        continue
    for fn in sorted(os.listdir(d)):
        if not fn.endswith(".go") or fn.endswith("_test.go"):
            continue
        names = [m.group(2) for m in re.finditer(r"^func (\([^)]*\) )?([A-Za-z0-9_]+)\(", open(os.path.join(d, fn)).read(), re.M)]
        if not names:
            continue
        miss = [n for n in names if n not in short]
        tot += len(names)
        hit += len(names) - len(miss)
        rows.append("| `%s/%s` | %d / %d | %s |" % (sub, fn, len(names) - len(miss), len(names), " ".join(sorted(set(miss))[:40])))
cov.append("%d of %d functions in the listed packages are executed by at least one harness." % (hit, tot))
cov += ["", "| file | executed / total | not executed by any harness |", "|---|---|---|"] + rows + [""]
txt = "\n".join(out) + "\n" + tail + "\n" + "\n".join(cov)
txt = txt.replace("{{NFIXED}}", str(len(kf["fixed"]))).replace("{{NSEEDS}}", str(n)).replace("{{NCAUGHT}}", str(c))
open(os.path.join(V, "DESIGN.md"), "w").write(txt)
print("DESIGN.md: %d lines; fixed=%d known=%d seeds=%d caught=%d" % (txt.count("\n"), len(kf["fixed"]), len(kf["findings"]), n, c))
