#!/bin/bash
# seed_eval.sh <seed-dir> <property> [tier]: confirm a seeded change (tests pass, demo fails with / passes without),
# then run the property's check against it. Always restores /repo.
set -u
SD=$1; P=$2; TIER=${3:-quick}
export GOFLAGS=-mod=mod GOPROXY=off GOSUMDB=off GOTOOLCHAIN=local
# default: apply to /repo itself; with SEED_WT=<dir> a scratch worktree of /repo's HEAD is used instead (lets a
# long-running check on /repo continue undisturbed); the checks then read it through VERIF_REPO.
R=/repo
if [ -n "${SEED_WT:-}" ]; then
  R=$SEED_WT
  [ -d "$R/.git" ] || [ -f "$R/.git" ] || git -C /repo worktree add -q --detach "$R" HEAD || exit 2
  git -C "$R" checkout -q --detach "$(git -C /repo rev-parse HEAD)" && git -C "$R" checkout -q -- . && git -C "$R" clean -fdq
  export VERIF_REPO=$R
fi
cd $R || exit 2
git diff --quiet || { echo "repo dirty"; exit 2; }
demo=$(ls $SD/*_test.go $SD/demo_test.go.txt 2>/dev/null | head -1)
pkgdir=$(grep -ohE "server(/[a-z0-9_/]+)?" $SD/notes.md 2>/dev/null | head -1)
[ -f "$SD/demo_pkg" ] && pkgdir=$(cat $SD/demo_pkg)
[ -z "$pkgdir" ] && pkgdir=server
echo "== $SD property=$P demo=$demo pkg=$pkgdir"
if [ -n "$demo" ]; then
  cp $demo $R/$pkgdir/zz_seeded_demo_test.go
  (cd $R/$pkgdir && go test -tags mysql -vet=off -count=1 -run 'Seeded' . >/tmp/seed_clean.$$.log 2>&1); echo "demo on clean tree: exit $? (want 0)"
fi
git apply $SD/patch.diff || { echo "patch does not apply"; rm -f $R/$pkgdir/zz_seeded_demo_test.go; exit 2; }
if [ -n "$demo" ]; then
  (cd $R/$pkgdir && go test -tags mysql -vet=off -count=1 -run 'Seeded' . >/tmp/seed_patched.$$.log 2>&1); echo "demo on patched tree: exit $? (want non-zero)"
  rm -f $R/$pkgdir/zz_seeded_demo_test.go
fi
go build ./server/... >/dev/null 2>&1; echo "build: exit $?"
go test -vet=off -count=1 ./server ./server/db/common ./server/drafty ./server/ringhash >/tmp/seed_suite.$$.log 2>&1; echo "suite on patched tree: exit $? (want 0)"
cd /verif && ./check $P $TIER > /tmp/seed_check.$$.log 2>&1; rc=$?
echo "check $P $TIER: exit $rc"; grep -a -E "^(VIOLATION|KNOWN|INCONCLUSIVE|  harness=)" /tmp/seed_check.$$.log | cut -c1-400 | head -8; tail -1 /tmp/seed_check.$$.log
cd $R && git checkout -- . && git status --short | head -3
rm -f /tmp/seed_clean.$$.log /tmp/seed_patched.$$.log /tmp/seed_suite.$$.log /tmp/seed_check.$$.log
