#!/usr/bin/env python3
"""Regenerates MANIFEST.json from harness/specs.json + manifest_meta.json (claimed checks) and the not-applicable list."""
import json, os
V = os.path.dirname(os.path.abspath(__file__))
specs = json.load(open(os.path.join(V, "harness", "specs.json")))
meta = json.load(open(os.path.join(V, "manifest_meta.json")))
props = [json.loads(l)["id"] for l in open(os.path.join(V, "properties.jsonl"))]
checks = []
for pid in props:
    if pid not in specs or pid not in meta["claimed"]:
        continue
    m = meta["claimed"][pid]
    c = {
        "property_id": pid,
        "quick_cmd": "./check %s quick" % pid,
        "evidence_file": "evidence/%s.json" % pid,
        "replay_cmd_template": "./check --replay {path}",
        "engine": "gosym",
        "level_claimed": {"category": "other", "text": m["text"], "design_ref": m.get("design_ref", "DESIGN.md §4 " + pid)},
        "level_note": m["note"],
        "technique": m.get("technique", "bounded symbolic execution of go/ssa with SMT (z3) deciding every branch and assertion; native replay of counterexamples"),
    }
    if any("thorough" in u for u in specs[pid]["units"]):
        c["thorough_cmd"] = "./check %s thorough" % pid
    checks.append(c)
na = [{"property_id": p, "reason": meta["not_applicable"].get(p, "no solver-based check has been built for this property yet")}
      for p in props if p not in [c["property_id"] for c in checks]]
man = {
    "version": 1,
    "setup_cmd": "cd engine && GOFLAGS=-mod=mod GOPROXY=off GOSUMDB=off GOTOOLCHAIN=local go build -o ../bin/gosym ./cmd/gosym",
    "hooks": {"guard": "verif", "enable": "harness files carry //go:build verif and are injected with packages.Config.Overlay (engine) / go test -overlay -tags verif (replay); nothing is committed to /repo",
              "baseline_off_cmd": "cd /repo && GOPROXY=off GOSUMDB=off GOTOOLCHAIN=local go test -mod=mod -vet=off -count=1 -timeout 25m ./server ./server/db/common ./server/drafty ./server/ringhash",
              "source_commits": [], "add_only": True},
    "engines": [{"name": "gosym", "path": "engine", "serves_properties": [c["property_id"] for c in checks],
                 "kind_free_text": "own symbolic executor for Go SSA (derived from x/tools go/ssa/interp) emitting SMT-LIB2 bit-vector queries to z3 over a persistent pipe; re-execution DFS over decision scripts; native replay of models via go test -overlay"}],
    "checks": checks,
    "not_applicable": na,
    "notes": meta.get("notes", ""),
}
json.dump(man, open(os.path.join(V, "MANIFEST.json"), "w"), indent=1)
print("checks:", [c["property_id"] for c in checks], "n/a:", [n["property_id"] for n in na])
