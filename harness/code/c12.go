//go:build verif

package code

import (
	"strconv"
	"strings"
	"time"

	"github.com/tinode/chat/server/store"
	"github.com/tinode/chat/server/store/types"
)

// C12 (reset-code part): a code is accepted at most once and no longer after max wrong guesses.

type verifPCache struct{ m map[string]string }

func (c *verifPCache) Get(key string) (string, error) {
	v, ok := c.m[key]
	if !ok {
		return "", types.ErrNotFound
	}
	return v, nil
}
func (c *verifPCache) Upsert(key string, value string, failOnDuplicate bool) error {
	if _, ok := c.m[key]; ok && failOnDuplicate {
		return types.ErrDuplicate
	}
	c.m[key] = value
	return nil
}
func (c *verifPCache) Delete(key string) error                            { delete(c.m, key); return nil }
func (c *verifPCache) Expire(keyPrefix string, olderThan time.Time) error { return nil }

const verifDigits = "0123456789"

func Harness_C12_code_attempts() {
	maxRetries := 1 + verifChoose("maxRetries", 3)
	ca := &authenticator{name: "code", codeLength: 4, lifetime: time.Hour, maxRetries: maxRetries}
	pc := &verifPCache{m: map[string]string{}}
	store.PCache = pc
	// the credential may contain the character the cache key form rewrites ('%' is stored as '/')
	cred := "email:alice" + []string{"a", "%", "/"}[verifChoose("credChar", 3)] + "x@example.com"
	key := "code_" + strings.ReplaceAll(cred, "%", "/")
	stored := verifNondetString("stored", 4, 4, verifDigits)
	count := verifChoose("count", maxRetries+2)
	uid := types.Uid(12345)
	pc.m[key] = stored + ":" + strconv.Itoa(count) + ":" + uid.String()

	guess := verifNondetString("guess", 4, 4, verifDigits)
	rec, _, err := ca.Authenticate([]byte(guess+":"+cred), "")
	if err == nil {
		verifAssert(rec != nil && rec.Uid == uid, "success-yields-the-codes-user")
		verifAssert(guess == stored, "success-only-with-the-right-code")
		verifAssert(count < maxRetries, "success-only-before-the-attempt-limit")
		_, present := pc.m[key]
		verifAssert(!present, "success-consumes-the-code")
		// the same code again is refused
		rec2, _, err2 := ca.Authenticate([]byte(guess+":"+cred), "")
		verifAssert(err2 != nil && rec2 == nil, "code-accepted-at-most-once")
	} else {
		verifAssert(rec == nil, "no-record-on-refusal")
		if count >= maxRetries {
			verifAssert(pc.m[key] == stored+":"+strconv.Itoa(count)+":"+uid.String(), "locked-entry-unchanged")
		} else {
			verifAssert(guess != stored, "right-code-within-limit-is-accepted")
			verifAssert(pc.m[key] == stored+":"+strconv.Itoa(count+1)+":"+uid.String(), "wrong-guess-is-counted")
		}
	}
	verifReach("end")
}

// maxRetries wrong guesses lock the code: the right code is refused afterwards.
func Harness_C12_code_lockout() {
	maxRetries := 1 + verifChoose("maxRetries", 3)
	ca := &authenticator{name: "code", codeLength: 4, lifetime: time.Hour, maxRetries: maxRetries}
	pc := &verifPCache{m: map[string]string{}}
	store.PCache = pc
	cred := "tel:+1555" + []string{"1", "%", "/"}[verifChoose("credChar", 3)] + "234567"
	key := "code_" + strings.ReplaceAll(cred, "%", "/")
	stored := verifNondetString("stored", 4, 4, verifDigits)
	pc.m[key] = stored + ":0:" + types.Uid(7).String()
	for i := 0; i < maxRetries; i++ {
		g := verifNondetString("wrong", 4, 4, verifDigits)
		verifAssume(g != stored)
		_, _, err := ca.Authenticate([]byte(g+":"+cred), "")
		verifAssert(err != nil, "wrong-code-refused")
	}
	rec, _, err := ca.Authenticate([]byte(stored+":"+cred), "")
	verifAssert(err != nil && rec == nil, "right-code-refused-after-too-many-wrong-guesses")
	verifReach("end")
}

// Malformed secrets and unknown credentials are refused.
func Harness_C12_code_malformed() {
	ca := &authenticator{name: "code", codeLength: 4, lifetime: time.Hour, maxRetries: 3}
	pc := &verifPCache{m: map[string]string{}}
	store.PCache = pc
	s := verifNondetString("secret", 0, 6, "12:ab")
	rec, _, err := ca.Authenticate([]byte(s), "")
	verifAssert(err != nil && rec == nil, "nothing-authenticates-against-an-empty-cache")
	verifReach("end")
}
