//go:build verif

package drafty

// C13 — message content rendered into notification previews never panics: Preview and PlainText over a
// Drafty document whose text is one of a few fixed strings and whose style/entity fields (tp, at, len, key)
// are arbitrary machine integers.

//verif:override sort.Slice
func verifSortSpans(x any, less func(i, j int) bool) {
	s, ok := x.([]*span)
	if !ok {
		panic("verif: sort.Slice stub supports []*span only")
	}
	// insertion sort driven by the real comparator
	for i := 1; i < len(s); i++ {
		for j := i; j > 0 && less(j, j-1); j-- {
			s[j], s[j-1] = s[j-1], s[j]
		}
	}
}

//verif:override encoding/json.Marshal
func verifJSONMarshalStub(v any) ([]byte, error) { return nil, nil }

var verifTagsAll = []string{"", "ST", "BR", "QQ", "EX"}
var verifTagsFew = []string{"", "ST", "BR", "QQ"}

// verifDoc builds the decoded-JSON form of a Drafty document: fixed text, nfmt style records whose at/len/key are
// arbitrary ints and whose tp is drawn from tps ("" = reference to an entity), nent entities.
func verifDoc(text string, hasTxt bool, nfmt, nent int, tps []string) map[string]any {
	doc := map[string]any{}
	if hasTxt {
		doc["txt"] = text
	}
	var fmts []any
	for i := 0; i < nfmt; i++ {
		st := map[string]any{}
		if tp := tps[verifChoose("tp", len(tps))]; tp != "" {
			st["tp"] = tp
		}
		st["at"] = verifNondetInt("at")
		st["len"] = verifNondetInt("len")
		st["key"] = verifNondetInt("key")
		fmts = append(fmts, st)
	}
	if nfmt > 0 {
		doc["fmt"] = fmts
	}
	var ents []any
	for i := 0; i < nent; i++ {
		e := map[string]any{"tp": []string{"LN", "EX", "QQ"}[i%3]}
		if i%2 == 0 {
			e["data"] = map[string]any{"name": "n", "url": "u", "val": []byte{1, 2}}
		}
		ents = append(ents, e)
	}
	if nent > 0 {
		doc["ent"] = ents
	}
	return doc
}

func harnessC13Drafty(text string, hasTxt bool, nfmt, nent int, tps []string, maxLen int) {
	doc := verifDoc(text, hasTxt, nfmt, nent, tps)
	// Any panic inside is reported by the engine as a "no-panic: ..." violation.
	_, err1 := PlainText(doc)
	_, err2 := Preview(doc, maxLen)
	if nfmt > 0 {
		// both renderers build the same span tree first: a document is rejected by both or by neither
		verifAssert((err1 == nil) == (err2 == nil), "renderers-agree-on-validity")
	}
	verifReach("end")
}

func Harness_C13_drafty_1fmt_emoji() {
	harnessC13Drafty("é\U0001F468\u200d\U0001F469z", true, 1, 2, verifTagsAll, 2)
}
func Harness_C13_drafty_1fmt_long()  { harnessC13Drafty("ab cd", true, 1, 2, verifTagsAll, 128) }
func Harness_C13_drafty_1fmt_notxt() { harnessC13Drafty("", false, 1, 2, verifTagsAll, 128) }
func Harness_C13_drafty_2fmt_short() { harnessC13Drafty("a b", true, 2, 1, verifTagsFew, 2) }
func Harness_C13_drafty_2fmt_long()  { harnessC13Drafty("a b", true, 2, 1, verifTagsFew, 128) }
func Harness_C13_drafty_2fmt_notxt() { harnessC13Drafty("", false, 2, 1, verifTagsFew, 128) }
func Harness_C13_drafty_3fmt()       { harnessC13Drafty("ab", true, 3, 2, verifTagsFew[:3], 128) }
