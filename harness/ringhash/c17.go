//go:build verif

package ringhash

import "hash"

// C17 (ring part) — placement is a function of the member SET, total, and minimally disruptive,
// for EVERY hash function (hash values are free symbolic 32-bit values, one per distinct input,
// collisions included).

var verifHashMemo map[string]uint32

func verifHash(data []byte) uint32 {
	k := string(data)
	if v, ok := verifHashMemo[k]; ok {
		return v
	}
	v := verifNondetU32("hash(" + k + ")")
	verifHashMemo[k] = v
	return v
}

// The signature digest (FNV-128a + ascii85) is replaced by an uninterpreted function of the byte
// sequence written into it: equal sequences give equal signatures for any digest.
type verifDigest struct{ buf []byte }

func (d *verifDigest) Write(p []byte) (int, error) { d.buf = append(d.buf, p...); return len(p), nil }
func (d *verifDigest) Sum(b []byte) []byte {
	out := make([]byte, 16)
	copy(out, "signature-digest")
	// fold the written sequence into the first bytes injectively enough for comparison purposes:
	// the harness compares the raw sequences (verifLastDigest) rather than the folded value.
	verifLastDigest = append([]byte{}, d.buf...)
	return append(b, out...)
}
func (d *verifDigest) Reset()         { d.buf = nil }
func (d *verifDigest) Size() int      { return 16 }
func (d *verifDigest) BlockSize() int { return 1 }

var verifLastDigest []byte

//verif:override hash/fnv.New128a
func verifNew128a() hash.Hash { return &verifDigest{} }

var verifNodePool = []string{"a", "b", "c", "d"}

func verifRing(replicas int, nodes []string) (*Ring, []byte) {
	r := New(replicas, verifHash)
	r.Add(nodes...)
	return r, verifLastDigest
}

func verifBytesEq(a, b []byte) bool {
	if len(a) != len(b) {
		return false
	}
	eq := true
	for i := range a {
		e := a[i] == b[i]
		eq = eq && e
	}
	return eq
}

func verifMember(nodes []string, x string) bool {
	for _, n := range nodes {
		if n == x {
			return true
		}
	}
	return false
}

// Same member set listed in two different orders: identical ring, placement and signature.
func harnessC17Order(nNodes, replicas int) {
	verifHashMemo = map[string]uint32{}
	nodes := append([]string{}, verifNodePool[:nNodes]...)
	// a permutation of the same set: rotate by r and optionally swap the first two
	perm := append([]string{}, nodes...)
	rot := verifChoose("rot", nNodes)
	perm = append(perm[rot:], perm[:rot]...)
	if verifChoose("swap", 2) == 1 && nNodes > 1 {
		perm[0], perm[1] = perm[1], perm[0]
	}
	r1, sig1 := verifRing(replicas, nodes)
	r2, sig2 := verifRing(replicas, perm)
	verifAssert(len(r1.keys) == nNodes*replicas && len(r2.keys) == len(r1.keys), "ring-size")
	for i := range r1.keys {
		verifAssert(r1.keys[i].hash == r2.keys[i].hash && r1.keys[i].key == r2.keys[i].key, "same-ring-whatever-the-order")
	}
	verifAssert(verifBytesEq(sig1, sig2), "same-signature-input-whatever-the-order")
	verifAssert(r1.Signature() == r2.Signature(), "same-signature")
	k := "grpTOPIC"
	g1, g2 := r1.Get(k), r2.Get(k)
	verifAssert(g1 == g2, "same-owner-whatever-the-order")
	verifAssert(verifMember(nodes, g1), "owner-is-a-live-node")
	verifReach("end")
}

func Harness_C17_ring_order_3x1() { harnessC17Order(3, 1) }
func Harness_C17_ring_order_2x2() { harnessC17Order(2, 2) }
func Harness_C17_ring_order_3x2() { harnessC17Order(3, 2) }
func Harness_C17_ring_order_4x1() { harnessC17Order(4, 1) }

// Removing a node moves only the names it owned; adding one moves names only to it.
func harnessC17Minimal(nNodes, replicas int) {
	verifHashMemo = map[string]uint32{}
	nodes := append([]string{}, verifNodePool[:nNodes]...)
	xi := verifChoose("removed", nNodes)
	x := nodes[xi]
	var rest []string
	for i, n := range nodes {
		if i != xi {
			rest = append(rest, n)
		}
	}
	full, _ := verifRing(replicas, nodes)
	less, _ := verifRing(replicas, rest)
	k := "usrSOMEBODY"
	gf, gl := full.Get(k), less.Get(k)
	verifAssert(verifMember(nodes, gf) && verifMember(rest, gl), "owner-is-a-live-node")
	if gf != x {
		verifAssert(gl == gf, "removal-moves-only-the-removed-nodes-names")
	}
	// read the other way: adding x to `rest` moves names only to x
	verifAssert(gf == gl || gf == x, "addition-moves-names-only-to-the-new-node")
	verifReach("end")
}

func Harness_C17_ring_minimal_3x1() { harnessC17Minimal(3, 1) }
func Harness_C17_ring_minimal_3x2() { harnessC17Minimal(3, 2) }
func Harness_C17_ring_minimal_4x1() { harnessC17Minimal(4, 1) }
func Harness_C17_ring_minimal_2x2() { harnessC17Minimal(2, 2) }

// Empty ring and single node.
func Harness_C17_ring_small() {
	verifHashMemo = map[string]uint32{}
	e := New(2, verifHash)
	verifAssert(e.Get("x") == "", "empty-ring-owns-nothing")
	one, _ := verifRing(2, []string{"a"})
	verifAssert(one.Get("anything") == "a", "single-node-owns-everything")
	verifReach("end")
}
