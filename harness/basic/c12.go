//go:build verif

package basic

import (
	"strings"
	"time"

	"github.com/tinode/chat/server/auth"
	"github.com/tinode/chat/server/store"
	"github.com/tinode/chat/server/store/types"
)

// C12 (basic authenticator): login names are unique regardless of letter case - whichever way a login gets into
// the store (registration, or a rename by another user), and a wrong password or unknown login never
// authenticates. The store fake matches logins EXACTLY (like a case-sensitive unique index), so all case
// handling is the authenticator's.

type verifAuthRow struct {
	uid    types.Uid
	lvl    auth.Level
	unique string
	secret []byte
}

type verifUsersT struct {
	store.UsersPersistenceInterface // everything not overridden below is not expected to be called
	rows                            []*verifAuthRow
}

func (u *verifUsersT) GetAuthRecord(user types.Uid, scheme string) (string, auth.Level, []byte, time.Time, error) {
	for _, r := range u.rows {
		if r.uid == user {
			return r.unique, r.lvl, r.secret, time.Time{}, nil
		}
	}
	return "", 0, nil, time.Time{}, nil
}
func (u *verifUsersT) GetAuthUniqueRecord(scheme, unique string) (types.Uid, auth.Level, []byte, time.Time, error) {
	for _, r := range u.rows {
		if r.unique == scheme+":"+unique {
			return r.uid, r.lvl, r.secret, time.Time{}, nil
		}
	}
	return 0, 0, nil, time.Time{}, nil
}
func (u *verifUsersT) AddAuthRecord(uid types.Uid, authLvl auth.Level, scheme, unique string, secret []byte, expires time.Time) error {
	for _, r := range u.rows {
		if r.unique == scheme+":"+unique {
			return types.ErrDuplicate
		}
	}
	u.rows = append(u.rows, &verifAuthRow{uid, authLvl, scheme + ":" + unique, secret})
	return nil
}
func (u *verifUsersT) UpdateAuthRecord(uid types.Uid, authLvl auth.Level, scheme, unique string, secret []byte, expires time.Time) error {
	for _, r := range u.rows {
		if r.uid == uid {
			r.unique, r.secret, r.lvl = scheme+":"+unique, secret, authLvl
		}
	}
	return nil
}

// password hashing is not the subject (and far too expensive to execute symbolically): hash = password
//
//verif:override golang.org/x/crypto/bcrypt.GenerateFromPassword
func verifBcryptGen(password []byte, cost int) ([]byte, error) { return append([]byte{}, password...), nil }

//verif:override golang.org/x/crypto/bcrypt.CompareHashAndPassword
func verifBcryptCmp(hash, password []byte) error {
	if string(hash) == string(password) {
		return nil
	}
	return types.ErrFailed
}

func Harness_C12_basic_login_unique() {
	users := &verifUsersT{}
	store.Users = users
	a := &authenticator{name: "basic", minPasswordLength: 3, minLoginLength: 2}
	l1 := verifNondetString("login1", 2, 3, "aAb")
	l2 := verifNondetString("login2", 2, 3, "aAb")
	_, err1 := a.AddRecord(&auth.Rec{Uid: 1}, []byte(l1+":pwd111"), "")
	verifAssert(err1 == nil, "first-registration-accepted")
	var err2 error
	if verifNondetBool("secondUserRenames") {
		// user 2 exists under another login and renames itself to l2
		_, err := a.AddRecord(&auth.Rec{Uid: 2}, []byte("zz9:pwd222"), "")
		verifAssert(err == nil, "second-registration-accepted")
		_, err2 = a.UpdateRecord(&auth.Rec{Uid: 2}, []byte(l2+":pwd222"), "")
	} else {
		// user 2 registers as l2 the way replyCreateUser does: IsUnique first, then AddRecord
		ok, err := a.IsUnique([]byte(l2+":pwd222"), "")
		if !ok {
			err2 = err
		} else {
			_, err2 = a.AddRecord(&auth.Rec{Uid: 2}, []byte(l2+":pwd222"), "")
		}
	}
	if strings.EqualFold(l1, l2) {
		verifAssert(err2 == types.ErrDuplicate, "same-login-in-another-case-is-a-duplicate")
	} else {
		verifAssert(err2 == nil, "different-login-accepted")
	}
	for i, r := range users.rows {
		verifAssert(r.unique == strings.ToLower(r.unique), "stored-logins-are-lower-case")
		for j := 0; j < i; j++ {
			verifAssert(!strings.EqualFold(users.rows[j].unique, r.unique), "no-two-stored-logins-equal-ignoring-case")
		}
	}
	// whoever holds a login authenticates with it in any spelling and only with its own password
	rec, _, err := a.Authenticate([]byte(l1+":pwd111"), "")
	verifAssert(err == nil && rec != nil && rec.Uid == 1, "owner-authenticates-with-its-login")
	_, _, err = a.Authenticate([]byte(l1+":pwd222"), "")
	verifAssert(err != nil, "wrong-password-never-authenticates")
	_, _, err = a.Authenticate([]byte("nobody:pwd111"), "")
	verifAssert(err != nil, "unknown-login-never-authenticates")
	verifReach("end")
}
