//go:build verif

package basic

import (
	"errors"
	"strings"
	"time"

	"github.com/tinode/chat/server/auth"
	"github.com/tinode/chat/server/store"
	"github.com/tinode/chat/server/store/types"
)

// C12 (basic authenticator): login names are unique regardless of letter case - whichever way a login gets into
// the store (registration, or a rename by another user), and a wrong password or unknown login never
// authenticates. The store fake matches logins EXACTLY (like a case-sensitive unique index), so all case
// handling is the authenticator's.

type verifAuthRow struct {
	uid    types.Uid
	lvl    auth.Level
	unique string
	secret []byte
}

type verifUsersT struct {
	store.UsersPersistenceInterface // everything not overridden below is not expected to be called
	rows                            []*verifAuthRow
}

func (u *verifUsersT) GetAuthRecord(user types.Uid, scheme string) (string, auth.Level, []byte, time.Time, error) {
	for _, r := range u.rows {
		if r.uid == user {
			return r.unique, r.lvl, r.secret, time.Time{}, nil
		}
	}
	return "", 0, nil, time.Time{}, nil
}
func (u *verifUsersT) GetAuthUniqueRecord(scheme, unique string) (types.Uid, auth.Level, []byte, time.Time, error) {
	for _, r := range u.rows {
		if r.unique == scheme+":"+unique {
			return r.uid, r.lvl, r.secret, time.Time{}, nil
		}
	}
	return 0, 0, nil, time.Time{}, nil
}
func (u *verifUsersT) AddAuthRecord(uid types.Uid, authLvl auth.Level, scheme, unique string, secret []byte, expires time.Time) error {
	for _, r := range u.rows {
		if r.unique == scheme+":"+unique {
			return types.ErrDuplicate
		}
	}
	u.rows = append(u.rows, &verifAuthRow{uid, authLvl, scheme + ":" + unique, secret})
	return nil
}
func (u *verifUsersT) UpdateAuthRecord(uid types.Uid, authLvl auth.Level, scheme, unique string, secret []byte, expires time.Time) error {
	for _, r := range u.rows {
		if r.uid == uid {
			r.unique, r.secret, r.lvl = scheme+":"+unique, secret, authLvl
		}
	}
	return nil
}

// password hashing is far too expensive to execute symbolically; the model keeps what bcrypt documents about its
// input: GenerateFromPassword refuses more than 72 bytes, and the hash depends on the first 72 bytes only (the
// comparison ignores whatever follows). Within 72 bytes the model is injective (hash = password).
//
//verif:override golang.org/x/crypto/bcrypt.GenerateFromPassword
func verifBcryptGen(password []byte, cost int) ([]byte, error) {
	if len(password) > 72 {
		return nil, verifErrTooLong
	}
	return append([]byte{}, password...), nil
}

var verifErrTooLong = errors.New("bcrypt: password length exceeds 72 bytes")

//verif:override golang.org/x/crypto/bcrypt.CompareHashAndPassword
func verifBcryptCmp(hash, password []byte) error {
	if len(password) > 72 {
		password = password[:72]
	}
	if string(hash) == string(password) {
		return nil
	}
	return types.ErrFailed
}

func Harness_C12_basic_login_unique() {
	users := &verifUsersT{}
	store.Users = users
	a := &authenticator{name: "basic", minPasswordLength: 3, minLoginLength: 2}
	l1 := verifNondetString("login1", 2, 3, "aAb")
	l2 := verifNondetString("login2", 2, 3, "aAb")
	_, err1 := a.AddRecord(&auth.Rec{Uid: 1}, []byte(l1+":pwd111"), "")
	verifAssert(err1 == nil, "first-registration-accepted")
	var err2 error
	if verifNondetBool("secondUserRenames") {
		// user 2 exists under another login and renames itself to l2
		_, err := a.AddRecord(&auth.Rec{Uid: 2}, []byte("zz9:pwd222"), "")
		verifAssert(err == nil, "second-registration-accepted")
		_, err2 = a.UpdateRecord(&auth.Rec{Uid: 2}, []byte(l2+":pwd222"), "")
	} else {
		// user 2 registers as l2 the way replyCreateUser does: IsUnique first, then AddRecord
		ok, err := a.IsUnique([]byte(l2+":pwd222"), "")
		if !ok {
			err2 = err
		} else {
			_, err2 = a.AddRecord(&auth.Rec{Uid: 2}, []byte(l2+":pwd222"), "")
		}
	}
	if strings.EqualFold(l1, l2) {
		verifAssert(err2 == types.ErrDuplicate, "same-login-in-another-case-is-a-duplicate")
	} else {
		verifAssert(err2 == nil, "different-login-accepted")
	}
	for i, r := range users.rows {
		verifAssert(r.unique == strings.ToLower(r.unique), "stored-logins-are-lower-case")
		for j := 0; j < i; j++ {
			verifAssert(!strings.EqualFold(users.rows[j].unique, r.unique), "no-two-stored-logins-equal-ignoring-case")
		}
	}
	// whoever holds a login authenticates with it in any spelling and only with its own password
	rec, _, err := a.Authenticate([]byte(l1+":pwd111"), "")
	verifAssert(err == nil && rec != nil && rec.Uid == 1, "owner-authenticates-with-its-login")
	_, _, err = a.Authenticate([]byte(l1+":pwd222"), "")
	verifAssert(err != nil, "wrong-password-never-authenticates")
	_, _, err = a.Authenticate([]byte("nobody:pwd111"), "")
	verifAssert(err != nil, "unknown-login-never-authenticates")
	// ... whatever the password, the empty one included
	anyPw := verifNondetString("unknownLoginPassword", 0, 2, "p1")
	recU, _, errU := a.Authenticate([]byte("nobody:"+anyPw), "")
	verifAssert(errU != nil && recU == nil, "unknown-login-never-authenticates")
	// and a known login does not authenticate with an empty or truncated password
	shortPw := []string{"", "p", "pwd11"}[verifChoose("shortPassword", 3)]
	_, _, err = a.Authenticate([]byte(l1+":"+shortPw), "")
	verifAssert(err != nil, "wrong-password-never-authenticates")
	verifReach("end")
}

// Long passwords: whatever password a user managed to set (registration or update), only that very password
// authenticates - a guess that differs from it anywhere, also beyond the 72nd byte, is refused.
func Harness_C12_basic_long_password() {
	users := &verifUsersT{}
	store.Users = users
	a := &authenticator{name: "basic", minPasswordLength: 3, minLoginLength: 2}
	base := strings.Repeat("p", 70)
	n := 70 + verifChoose("extraLen", 5) // 70..74 bytes
	pw := base
	for i := 70; i < n; i++ {
		pw += verifNondetString("tail", 1, 1, "xy")
	}
	var err error
	if verifNondetBool("viaUpdate") {
		_, err = a.AddRecord(&auth.Rec{Uid: 1}, []byte("alice:short1"), "")
		verifAssert(err == nil, "registration-accepted")
		_, err = a.UpdateRecord(&auth.Rec{Uid: 1}, []byte("alice:"+pw), "")
	} else {
		_, err = a.AddRecord(&auth.Rec{Uid: 1}, []byte("alice:"+pw), "")
	}
	if err != nil {
		// a password that cannot be stored is refused outright, nothing to log in with
		verifReach("end")
		return
	}
	rec, _, err := a.Authenticate([]byte("alice:"+pw), "")
	verifAssert(err == nil && rec != nil && rec.Uid == 1, "owner-authenticates-with-its-password")
	m := 70 + verifChoose("guessExtraLen", 6)
	guess := base
	for i := 70; i < m; i++ {
		guess += verifNondetString("guessTail", 1, 1, "xy")
	}
	verifAssume(guess != pw)
	_, _, err = a.Authenticate([]byte("alice:"+guess), "")
	verifAssert(err != nil, "wrong-password-never-authenticates")
	verifReach("end")
}
