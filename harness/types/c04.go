//go:build verif

package types

import "sort"

// C04 — the delete-range pipeline: sort.Sort(RangeSorter) followed by Normalize must keep
// exactly the union of the listed ranges (Range = [Low, Hi), Hi == 0 means the single id Low).

func verifRangeHi(r Range) int {
	hi := r.Hi
	if hi == 0 {
		hi = r.Low + 1
	}
	return hi
}

func verifInRange(r Range, x int) bool {
	hi := verifRangeHi(r)
	return r.Low <= x && x < hi
}

func verifInAny(rs []Range, x int) bool {
	in := false
	for i := range rs {
		a := verifInRange(rs[i], x)
		in = in || a
	}
	return in
}

// verifNondetRanges returns n arbitrary well-formed ranges as the validation loop of the
// {del msg} handler produces them: Low >= 0, and either Hi == 0 with Low > 0 or Hi > Low.
func verifNondetRanges(n int) []Range {
	rs := make([]Range, n)
	for i := range rs {
		lo := verifNondetInt("low")
		hi := verifNondetInt("hi")
		verifAssume(lo >= 0 && lo < 1<<31 && hi >= 0 && hi <= 1<<31)
		single := hi == 0 && lo > 0
		proper := hi > lo
		verifAssume(single || proper)
		rs[i] = Range{Low: lo, Hi: hi}
	}
	return rs
}

func harnessC04Normalize(n int) {
	rs := verifNondetRanges(n)
	x := verifNondetInt("x")
	verifAssume(x >= 0 && x <= 1<<31)
	before := verifInAny(rs, x)

	sort.Sort(RangeSorter(rs))
	for i := 1; i < len(rs); i++ {
		verifAssert(rs[i-1].Low <= rs[i].Low, "sorted-by-low")
	}
	out := RangeSorter(rs).Normalize()
	after := verifInAny(out, x)
	if before {
		verifAssert(after, "no-listed-id-lost")
	} else {
		verifAssert(!after, "no-unlisted-id-added")
	}
	verifAssert(len(out) >= 1 && len(out) <= n, "output-size")
	for i := range out {
		verifAssert(out[i].Hi == 0 || out[i].Hi > out[i].Low, "output-well-formed")
	}
	for i := 1; i < len(out); i++ {
		verifAssert(verifRangeHi(out[i-1]) <= out[i].Low, "output-disjoint-ascending")
	}
	verifReach("end")
}

func Harness_C04_normalize_n2() { harnessC04Normalize(2) }
func Harness_C04_normalize_n3() { harnessC04Normalize(3) }
func Harness_C04_normalize_n4() { harnessC04Normalize(4) }
