//go:build verif

package types

import (
	"strings"

	"golang.org/x/crypto/xtea"
)

// C20 — identifier codecs.

// Every non-zero id survives every textual/binary form.
func Harness_C20_uid_roundtrip() {
	u := Uid(verifNondetU64("u"))
	verifAssume(u != 0)
	s := u.String()
	verifAssert(len(s) == 11, "base64-length")
	verifAssert(ParseUid(s) == u, "base64-roundtrip")

	b, err := u.MarshalBinary()
	var u2 Uid
	verifAssert(err == nil && u2.UnmarshalBinary(b) == nil && u2 == u, "binary-roundtrip")

	jb, err := u.MarshalJSON()
	var u3 Uid
	verifAssert(err == nil && u3.UnmarshalJSON(jb) == nil && u3 == u, "json-roundtrip")

	verifAssert(ParseUserId(u.UserId()) == u, "usr-prefixed-roundtrip")
	verifAssert(ParseUserId(u.PrefixId("grp")) == 0, "wrong-prefix-is-no-id")
	// the bare base64 text, or one carrying a look-alike prefix, is not the prefixed form of anybody's id
	verifAssert(ParseUserId(s) == 0, "missing-prefix-is-no-id")
	verifAssert(ParseUserId("USR"+s) == 0 && ParseUserId("us"+s) == 0 && ParseUserId("usrr"+s) == 0, "look-alike-prefix-is-no-id")
	verifAssert(strings.HasPrefix(u.FndName(), "fnd") && u.FndName()[3:] == s, "fnd-name")
	verifReach("end")
}

func Harness_C20_uid_base32_roundtrip() {
	u := Uid(verifNondetU64("u"))
	verifAssume(u != 0)
	s32 := u.String32()
	verifAssert(len(s32) == 13, "base32-length")
	verifAssert(ParseUid32(s32) == u, "base32-roundtrip")
	verifReach("end")
}

// The zero id has no text and no text decodes to it by accident being somebody.
func Harness_C20_uid_zero() {
	var z Uid
	verifAssert(z.String() == "" && z.UserId() == "" && z.PrefixId("grp") == "", "zero-has-no-text")
	verifAssert(ParseUid("") == 0 && ParseUserId("usr") == 0, "empty-is-zero")
	verifReach("end")
}

// A text yields an id only if it is THE encoding of that id.
func harnessC20UidCanonical(n int) {
	s := verifNondetString("s", n, n, "")
	u := ParseUid(s)
	if u != 0 {
		verifAssert(u.String() == s, "only-the-canonical-text-yields-an-id")
	}
	verifReach("end")
}

func Harness_C20_uid_canonical_len11() { harnessC20UidCanonical(11) }

const verifB64URL = "ABCDEFGHIJKLMNOPQRSTUVWXYZabcdefghijklmnopqrstuvwxyz0123456789-_"

// Same law with the first 8 characters restricted to the base64url alphabet (they take the decoder's
// 8-at-a-time fast path) and the last 3 characters arbitrary bytes.
func Harness_C20_uid_canonical_tail3() {
	s := verifNondetString("head", 8, 8, verifB64URL) + verifNondetString("tail", 3, 3, "")
	u := ParseUid(s)
	if u != 0 {
		verifAssert(u.String() == s, "only-the-canonical-text-yields-an-id")
	}
	us := ParseUserId("usr" + s)
	verifAssert(us == u, "usr-prefixed-parse-agrees")
	verifReach("end")
}

func Harness_C20_p2p_canonical_tail3() { harnessC20P2PCanonical(3) }
func Harness_C20_p2p_canonical_tail6() { harnessC20P2PCanonical(6) }

// A p2p name decodes to a pair only if it is THE name of that pair (last n characters arbitrary bytes).
func harnessC20P2PCanonical(n int) {
	s := "p2p" + verifNondetString("head", 22-n, 22-n, verifB64URL) + verifNondetString("tail", n, n, "")
	u1, u2, err := ParseP2P(s)
	if err == nil && u1 != 0 && u2 != 0 && u1 < u2 {
		verifAssert(u1.P2PName(u2) == s, "only-the-canonical-name-yields-a-pair")
	}
	verifReach("end")
}
func Harness_C20_uid_wrong_len() {
	n := 0 + verifChoose("n", 14)
	if n == 11 {
		n = 14
	}
	s := verifNondetString("s", n, n, "")
	verifAssert(ParseUid(s) == 0, "wrong-length-is-no-id")
	verifAssert(ParseUserId("usr"+s) == 0, "wrong-length-usr-is-no-id")
	verifReach("end")
}

// P2P names: symmetric, "" iff equal or zero, decode back to the pair, show each side the other.
func Harness_C20_p2p_name() {
	a := Uid(verifNondetU64("a"))
	b := Uid(verifNondetU64("b"))
	n1 := a.P2PName(b)
	n2 := b.P2PName(a)
	verifAssert(n1 == n2, "p2p-symmetric")
	if a == 0 || b == 0 || a == b {
		verifAssert(n1 == "", "p2p-empty-for-zero-or-self")
		verifReach("end")
		return
	}
	verifAssert(len(n1) == 3+22 && strings.HasPrefix(n1, "p2p"), "p2p-shape")
	u1, u2, err := ParseP2P(n1)
	verifAssert(err == nil, "p2p-parses")
	lo, hi := a, b
	if lo > hi {
		lo, hi = hi, lo
	}
	verifAssert(u1 == lo && u2 == hi, "p2p-decodes-to-the-pair")
	fa, err := P2PNameForUser(a, n1)
	verifAssert(err == nil && fa == b.UserId(), "p2p-shows-a-the-other")
	fb, err := P2PNameForUser(b, n1)
	verifAssert(err == nil && fb == a.UserId(), "p2p-shows-b-the-other")
	verifReach("end")
}

// Different unordered pairs get different names.
func Harness_C20_p2p_injective() {
	a := Uid(verifNondetU64("a"))
	b := Uid(verifNondetU64("b"))
	c := Uid(verifNondetU64("c"))
	d := Uid(verifNondetU64("d"))
	verifAssume(a != 0 && b != 0 && c != 0 && d != 0 && a < b && c < d)
	same := a == c && b == d
	verifAssume(!same)
	verifAssert(a.P2PName(b) != c.P2PName(d), "p2p-injective")
	verifReach("end")
}

// grp <-> chn spelling.
func Harness_C20_grp_chn() {
	s := verifNondetString("s", 0, 6, "")
	if strings.HasPrefix(s, "grp") {
		verifAssert(ChnToGrp(GrpToChn(s)) == s, "grp-chn-grp")
		verifAssert(IsChannel(GrpToChn(s)) && GrpToChn(s)[3:] == s[3:], "chn-spelling")
		verifAssert(ChnToGrp(s) == s && !IsChannel(s), "grp-unchanged")
	} else if strings.HasPrefix(s, "chn") {
		verifAssert(GrpToChn(ChnToGrp(s)) == s, "chn-grp-chn")
		verifAssert(GrpToChn(s) == s && IsChannel(s), "chn-unchanged")
		verifAssert(ChnToGrp(s)[:3] == "grp" && ChnToGrp(s)[3:] == s[3:], "grp-spelling")
	} else {
		verifAssert(GrpToChn(s) == "" && ChnToGrp(s) == "" && !IsChannel(s), "other-names-rejected")
	}
	verifReach("end")
}

// The database form of an id (UidGenerator.DecodeUid / EncodeInt64: the id run through a block cipher): every
// 64-bit id survives the round trip both ways, so the mapping is a bijection and no two ids share a database
// key. The cipher is replaced by an arbitrary-looking involution (XOR mask) in the engine - any pair of mutually
// inverse permutations would do; natively the real XTEA runs.
//
//verif:override (*golang.org/x/crypto/xtea.Cipher).Encrypt
func verifCipherEncrypt(c *xtea.Cipher, dst, src []byte) {
	for i := 0; i < 8; i++ {
		dst[i] = src[i] ^ byte(0xA5+i)
	}
}

//verif:override (*golang.org/x/crypto/xtea.Cipher).Decrypt
func verifCipherDecrypt(c *xtea.Cipher, dst, src []byte) {
	for i := 0; i < 8; i++ {
		dst[i] = src[i] ^ byte(0xA5+i)
	}
}

func Harness_C20_uid_database_form() {
	var ug UidGenerator
	if err := ug.Init(1, []byte("0123456789abcdef")); err != nil {
		verifAssert(false, "generator-initialises")
	}
	u := Uid(verifNondetU64("uid"))
	v := int64(verifNondetU64("dbkey"))
	verifAssert(ug.EncodeInt64(ug.DecodeUid(u)) == u, "id-survives-the-database-form")
	verifAssert(ug.DecodeUid(ug.EncodeInt64(v)) == v, "database-key-survives-the-id-form")
	u2 := Uid(verifNondetU64("uid2"))
	if u != u2 {
		verifAssert(ug.DecodeUid(u) != ug.DecodeUid(u2), "distinct-ids-have-distinct-database-keys")
	}
	verifReach("end")
}
