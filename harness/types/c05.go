//go:build verif

package types

// C05 — access-mode algebra. Harnesses over the real AccessMode code.

func verifMode8(name string) AccessMode {
	return AccessMode(verifNondetU8(name))
}

// text(m) parses back to m, for every 8-bit permission set; JSON form likewise.
func Harness_C05_text_roundtrip() {
	m := verifMode8("m")
	junk := verifMode8("junk")
	b, err := m.MarshalText()
	verifAssert(err == nil, "marshal-ok")
	m2 := junk
	err = m2.UnmarshalText(b)
	verifAssert(err == nil, "unmarshal-ok")
	verifAssert(m2 == m, "text-roundtrip")
	verifAssert(m.String() == string(b), "string-eq-text")

	jb, err := m.MarshalJSON()
	verifAssert(err == nil, "marshal-json-ok")
	m3 := junk
	err = m3.UnmarshalJSON(jb)
	verifAssert(err == nil && m3 == m, "json-roundtrip")
	verifReach("end")
}

func verifIsModeLetter(c byte) (AccessMode, bool) {
	switch c {
	case 'J', 'j':
		return ModeJoin, true
	case 'R', 'r':
		return ModeRead, true
	case 'W', 'w':
		return ModeWrite, true
	case 'P', 'p':
		return ModePres, true
	case 'A', 'a':
		return ModeApprove, true
	case 'S', 's':
		return ModeShare, true
	case 'D', 'd':
		return ModeDelete, true
	case 'O', 'o':
		return ModeOwner, true
	}
	return 0, false
}

// Reference reading of a mode text per the property: letters in any case, 'N' alone for none,
// anything else (unknown letter anywhere, N combined with anything) is rejected; "" = unset.
func verifRefParse(s string) (AccessMode, bool) {
	if len(s) == 0 {
		return ModeUnset, true
	}
	if len(s) == 1 && (s[0] == 'N' || s[0] == 'n') {
		return ModeNone, true
	}
	m := ModeUnset
	for i := 0; i < len(s); i++ {
		bit, ok := verifIsModeLetter(s[i])
		if !ok {
			return ModeUnset, false
		}
		m |= bit
	}
	return m, true
}

func harnessC05Parse(maxLen int, alphabet string) {
	s := verifNondetString("s", 0, maxLen, alphabet)
	m0 := verifMode8("m0")
	got, err := ParseAcs([]byte(s))
	want, ok := verifRefParse(s)
	verifAssert((err == nil) == ok, "parse-accepts-exactly-valid-text")
	if err == nil && ok {
		verifAssert(got == want, "parse-value")
	}
	// UnmarshalText: invalid text leaves the target unchanged, "" means no change
	m := m0
	err2 := m.UnmarshalText([]byte(s))
	verifAssert((err2 == nil) == (err == nil), "unmarshal-err-eq-parse-err")
	if err2 != nil || len(s) == 0 {
		verifAssert(m == m0, "rejected-or-empty-leaves-target-unchanged")
	} else if ok {
		verifAssert(m == want&ModeBitmask, "unmarshal-value")
	}
	verifReach("end")
}

func Harness_C05_parse_len3() { harnessC05Parse(3, "") }
func Harness_C05_parse_len4() { harnessC05Parse(4, "") }
func Harness_C05_parse_len6_alpha() { harnessC05Parse(6, "JrWpNnx+") }

// o.ApplyDelta(o.Delta(n)) == n for all pairs of permission sets.
func Harness_C05_delta_apply() {
	o := verifMode8("o")
	n := verifMode8("n")
	d := o.Delta(n)
	m := o
	err := m.ApplyDelta(d)
	verifAssert(err == nil, "delta-applies")
	verifAssert(m == n, "delta-yields-new")
	// ApplyMutation with a delta string is the same thing
	m2 := o
	err = m2.ApplyMutation(d)
	verifAssert(err == nil && m2 == n, "mutation-delta-yields-new")
	// ApplyMutation with plain text is assignment
	m3 := o
	err = m3.ApplyMutation(n.String())
	verifAssert(err == nil && m3 == n, "mutation-assign")
	// empty delta iff equal
	verifAssert((d == "") == (o == n), "empty-delta-iff-equal")
	verifReach("end")
}

// Mutation strings: unknown letters are rejected and leave the target unchanged; "" = no change.
func harnessC05Mutation(maxLen int, alphabet string) {
	s := verifNondetString("s", 0, maxLen, alphabet)
	m0 := verifMode8("m0")
	m := m0
	err := m.ApplyMutation(s)
	if err != nil || len(s) == 0 {
		verifAssert(m == m0, "rejected-or-empty-leaves-target-unchanged")
	}
	if len(s) == 0 {
		verifAssert(err == nil, "empty-is-ok")
	}
	// any character outside the mode alphabet, '+', '-' must be rejected
	junk := false
	for i := 0; i < len(s); i++ {
		c := s[i]
		_, letter := verifIsModeLetter(c)
		if !letter && c != 'N' && c != 'n' && c != '+' && c != '-' {
			junk = true
		}
	}
	if junk {
		verifAssert(err != nil, "junk-rejected")
	}
	verifAssert(m&^ModeBitmask == 0, "result-within-bitmask")
	verifReach("end")
}

// Text without '+' or '-' is an assignment: applying the canonical text of any mode n to any mode yields n
// ("N" included: it clears the mode).
func Harness_C05_mutation_assign() {
	m := verifMode8("m")
	n := verifMode8("n")
	err := m.ApplyMutation(n.String())
	verifAssert(err == nil && m == n, "mutation-with-plain-text-assigns")
	verifReach("end")
}

func Harness_C05_mutation_len3() { harnessC05Mutation(3, "") }
func Harness_C05_mutation_len4_alpha() { harnessC05Mutation(4, "JrN+-x") }
func Harness_C05_mutation_len5_alpha() { harnessC05Mutation(5, "JrN+-x") }

// BetterEqual / BetterThan agree with set inclusion.
func Harness_C05_better() {
	g := verifMode8("g")
	w := verifMode8("w")
	verifAssert(g.BetterEqual(w) == (w&^g == 0), "better-equal-is-superset")
	verifAssert(g.BetterThan(w) == (g&^w != 0), "better-than-is-not-subset")
	verifAssert((g & w).BetterEqual(g&w), "reflexive")
	verifReach("end")
}
