//go:build verif

package fs

import (
	"os"
	"path/filepath"
	"syscall"
)

// C16 (stored bytes of collected uploads): the file-system media handler's Delete removes the bytes of EVERY
// listed upload that still has bytes - a listed file that is already gone (its bytes were cleaned up earlier, or
// another node collected it) must not stop the batch: the records of the whole batch are deleted by then, bytes
// left behind could never be found again.

// the engine's file system: a set of existing paths
var verifFS map[string]bool

//verif:override os.Remove
func verifRemove(name string) error {
	if verifFS[name] {
		delete(verifFS, name)
		return nil
	}
	return &os.PathError{Op: "remove", Path: name, Err: syscall.ENOENT}
}

func Harness_C16_fs_delete_batch() {
	dir := "/verif-uploads"
	if !verifIsSymbolicEngine() {
		d, err := os.MkdirTemp("", "verif-fs")
		if err != nil {
			panic(err)
		}
		defer os.RemoveAll(d)
		dir = d
	}
	verifFS = map[string]bool{}
	var locs []string
	var present []bool
	for i := 0; i < 3; i++ {
		loc := filepath.Join(dir, "f"+string(rune('0'+i)))
		has := verifNondetBool("bytesPresent")
		if has {
			if verifIsSymbolicEngine() {
				verifFS[loc] = true
			} else if err := os.WriteFile(loc, []byte("x"), 0o600); err != nil {
				panic(err)
			}
		}
		locs = append(locs, loc)
		present = append(present, has)
	}
	fh := &fshandler{fileUploadLocation: dir}
	_ = fh.Delete(locs)
	for i, loc := range locs {
		exists := false
		if verifIsSymbolicEngine() {
			exists = verifFS[loc]
		} else if _, err := os.Stat(loc); err == nil {
			exists = true
		}
		_ = present[i]
		verifAssert(!exists, "bytes-of-every-collected-upload-are-removed")
	}
	verifReach("end")
}
