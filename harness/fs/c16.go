//go:build verif

package fs

import (
	"errors"
	"io"
	"os"
	"path/filepath"
	"strings"
	"syscall"
	"time"

	"github.com/tinode/chat/server/store"
	"github.com/tinode/chat/server/store/types"
)

// C16 (stored bytes of collected uploads): the file-system media handler's Delete removes the bytes of EVERY
// listed upload that still has bytes - a listed file that is already gone (its bytes were cleaned up earlier, or
// another node collected it) must not stop the batch: the records of the whole batch are deleted by then, bytes
// left behind could never be found again.

// the engine's file system: a set of existing paths
var verifFS map[string]bool

//verif:override os.Remove
func verifRemove(name string) error {
	if verifFS[name] {
		delete(verifFS, name)
		return nil
	}
	return &os.PathError{Op: "remove", Path: name, Err: syscall.ENOENT}
}

func Harness_C16_fs_delete_batch() {
	dir := "/verif-uploads"
	if !verifIsSymbolicEngine() {
		d, err := os.MkdirTemp("", "verif-fs")
		if err != nil {
			panic(err)
		}
		defer os.RemoveAll(d)
		dir = d
	}
	verifFS = map[string]bool{}
	var locs []string
	var present []bool
	for i := 0; i < 3; i++ {
		loc := filepath.Join(dir, "f"+string(rune('0'+i)))
		has := verifNondetBool("bytesPresent")
		if has {
			if verifIsSymbolicEngine() {
				verifFS[loc] = true
			} else if err := os.WriteFile(loc, []byte("x"), 0o600); err != nil {
				panic(err)
			}
		}
		locs = append(locs, loc)
		present = append(present, has)
	}
	fh := &fshandler{fileUploadLocation: dir}
	_ = fh.Delete(locs)
	for i, loc := range locs {
		exists := false
		if verifIsSymbolicEngine() {
			exists = verifFS[loc]
		} else if _, err := os.Stat(loc); err == nil {
			exists = true
		}
		_ = present[i]
		verifAssert(!exists, "bytes-of-every-collected-upload-are-removed")
	}
	verifReach("end")
}

// ---- a failed copy: Upload creates the file, records the upload, copies the bytes. If the copy fails part-way
// (disk full, read fault) the failure is reported and the partial file is removed - never handed out as a
// completed upload.

var verifCopyFails bool

//verif:override os.Create
func verifCreate(name string) (*os.File, error) {
	verifFS[name] = true
	return new(os.File), nil
}

//verif:override (*os.File).Close
func verifFileClose(f *os.File) error { return nil }

//verif:override io.Copy
func verifCopy(dst io.Writer, src io.Reader) (int64, error) {
	if verifCopyFails {
		return 3, errors.New("verif: copy fault")
	}
	return 10, nil
}

// natively: a reader that fails after a few bytes
type verifFaultyReader struct {
	r     *strings.Reader
	fails bool
}

func (f *verifFaultyReader) Read(p []byte) (int, error) {
	if f.fails && f.r.Len() <= 7 {
		return 0, errors.New("verif: read fault")
	}
	if len(p) > 3 {
		p = p[:3]
	}
	return f.r.Read(p)
}
func (f *verifFaultyReader) Seek(offset int64, whence int) (int64, error) { return f.r.Seek(offset, whence) }

type verifFilesFS struct{ started int }

func (f *verifFilesFS) StartUpload(fd *types.FileDef) error { f.started++; return nil }
func (f *verifFilesFS) FinishUpload(fd *types.FileDef, success bool, size int64) (*types.FileDef, error) {
	return fd, nil
}
func (f *verifFilesFS) Get(fid string) (*types.FileDef, error)             { return nil, nil }
func (f *verifFilesFS) DeleteUnused(olderThan time.Time, limit int) error { return nil }
func (f *verifFilesFS) LinkAttachments(topic string, msgId types.Uid, attachments []string) error {
	return nil
}

func Harness_C16_fs_upload_copy_fault() {
	dir := "/verif-uploads"
	if !verifIsSymbolicEngine() {
		d, err := os.MkdirTemp("", "verif-fs")
		if err != nil {
			panic(err)
		}
		defer os.RemoveAll(d)
		dir = d
	}
	verifFS = map[string]bool{}
	store.Files = &verifFilesFS{}
	verifCopyFails = verifNondetBool("copyFails")
	fh := &fshandler{fileUploadLocation: dir, serveURL: "/v0/file/s/"}
	fdef := &types.FileDef{ObjHeader: types.ObjHeader{Id: types.Uid(12345).String()}, User: types.Uid(7).String()}
	src := &verifFaultyReader{r: strings.NewReader("0123456789"), fails: verifCopyFails}
	url, size, err := fh.Upload(fdef, src)
	exists := false
	if verifIsSymbolicEngine() {
		exists = verifFS[fdef.Location]
	} else if _, e := os.Stat(fdef.Location); e == nil {
		exists = true
	}
	if verifCopyFails {
		verifAssert(err != nil && url == "", "failed-upload-is-reported")
		verifAssert(!exists, "failed-upload-leaves-no-stored-bytes")
	} else {
		verifAssert(err == nil && size == 10 && url != "", "upload-stored-byte-for-byte")
		verifAssert(exists, "completed-upload-has-its-bytes")
	}
	verifReach("end")
}
