//go:build verif && mysql

package mysql

// C18 — multi-statement store operations are all-or-nothing. The SQL layer is a transaction
// recorder: under the gosym engine the database/sql and sqlx entry points used by the adapter are
// replaced (verif:override) by the functions below; natively (replay) the same recorder sits behind
// a fake database/sql driver. The i-th statement fails iff i == failAt.

import (
	"strings"
	"context"
	"database/sql"
	"database/sql/driver"
	"errors"
	"io"
	"time"

	ms "github.com/go-sql-driver/mysql"
	"github.com/jmoiron/sqlx"
	"github.com/tinode/chat/server/auth"
	t "github.com/tinode/chat/server/store/types"
)

type verifRecT struct {
	open, begun, commits, rollbacks int
	commitFailed                    bool
	stmts                           int // statements issued so far
	failAt                          int // index of the failing statement, -1 = none
	dupAt                           int // index of a statement answered "duplicate key" (a handled outcome, not a failure), -1 = none
	failedGeneric, failedDupe       bool
	outsideTx                       int // statements issued with no transaction open
	afterClose                      int // statements issued on a finished transaction
	commitFails                     bool
	commitTxDone                    bool // a failing commit reports sql.ErrTxDone (deadline expired, already rolled back)
	affected                        int64
	rowFor                          string // a query starting with this text finds one row (a zero); "" = no query finds rows
}

func (r *verifRecT) finds(query string) bool {
	return r.rowFor != "" && strings.HasPrefix(query, r.rowFor)
}

var verifRec *verifRecT

var verifErrGeneric = errors.New("verif: injected statement failure")

func (r *verifRecT) stmt(inTx bool) error {
	idx := r.stmts
	r.stmts++
	if inTx && r.open == 0 {
		r.afterClose++
	}
	if !inTx && r.open == 0 {
		r.outsideTx++
	}
	if idx == r.failAt {
		r.failedGeneric = true
		return verifErrGeneric
	}
	if idx == r.dupAt {
		r.failedDupe = true
		return &ms.MySQLError{Number: 1062, Message: "duplicate"}
	}
	return nil
}

func (r *verifRecT) begin() { r.open++; r.begun++ }
func (r *verifRecT) commit() error {
	if r.open == 0 {
		return sql.ErrTxDone
	}
	r.open--
	if r.commitFails {
		r.commitFailed = true
		if r.commitTxDone {
			// the deadline passed: database/sql has rolled the transaction back and says so
			return sql.ErrTxDone
		}
		return verifErrGeneric
	}
	r.commits++
	return nil
}
func (r *verifRecT) rollback() error {
	if r.open == 0 {
		return sql.ErrTxDone
	}
	r.open--
	r.rollbacks++
	return nil
}

type verifResult struct{}

func (verifResult) LastInsertId() (int64, error) { return 1, nil }
func (verifResult) RowsAffected() (int64, error) { return verifRec.affected, nil }

// ---------------------------------------------------------------- engine side: overrides

//verif:override (*github.com/jmoiron/sqlx.DB).BeginTxx
func verifBeginTxx(db *sqlx.DB, ctx context.Context, opts *sql.TxOptions) (*sqlx.Tx, error) {
	verifRec.begin()
	return &sqlx.Tx{}, nil
}

//verif:override (*database/sql.DB).Begin
func verifBegin(db *sql.DB) (*sql.Tx, error) {
	verifRec.begin()
	return nil, nil
}

//verif:override (*database/sql.Tx).Exec
func verifTxExec(tx *sql.Tx, query string, args ...any) (sql.Result, error) {
	if err := verifRec.stmt(true); err != nil {
		return nil, err
	}
	return verifResult{}, nil
}

//verif:override (*database/sql.Tx).ExecContext
func verifTxExecContext(tx *sql.Tx, ctx context.Context, query string, args ...any) (sql.Result, error) {
	return verifTxExec(tx, query, args...)
}

//verif:override (*database/sql.Tx).Commit
func verifTxCommit(tx *sql.Tx) error { return verifRec.commit() }

//verif:override (*database/sql.Tx).Rollback
func verifTxRollback(tx *sql.Tx) error { return verifRec.rollback() }

//verif:override (*database/sql.Tx).Prepare
func verifTxPrepare(tx *sql.Tx, query string) (*sql.Stmt, error) {
	if err := verifRec.stmt(true); err != nil {
		return nil, err
	}
	return nil, nil
}

//verif:override (*database/sql.Stmt).Exec
func verifStmtExec(s *sql.Stmt, args ...any) (sql.Result, error) {
	if err := verifRec.stmt(true); err != nil {
		return nil, err
	}
	return verifResult{}, nil
}

//verif:override (*database/sql.Stmt).Close
func verifStmtClose(s *sql.Stmt) error { return nil }

//verif:override (*database/sql.Tx).Query
func verifTxQuery(tx *sql.Tx, query string, args ...any) (*sql.Rows, error) {
	if err := verifRec.stmt(true); err != nil {
		return nil, err
	}
	return nil, nil
}

//verif:override (*database/sql.Rows).Next
func verifRowsNext(r *sql.Rows) bool { return false }

//verif:override (*database/sql.Rows).Err
func verifRowsErr(r *sql.Rows) error { return nil }

//verif:override (*database/sql.Rows).Close
func verifRowsClose(r *sql.Rows) error { return nil }

//verif:override (*github.com/jmoiron/sqlx.Tx).Get
func verifTxGet(tx *sqlx.Tx, dest any, query string, args ...any) error {
	if err := verifRec.stmt(true); err != nil {
		return err
	}
	if verifRec.finds(query) {
		return nil
	}
	return sql.ErrNoRows
}

//verif:override (*github.com/jmoiron/sqlx.Tx).Select
func verifTxSelect(tx *sqlx.Tx, dest any, query string, args ...any) error {
	return verifRec.stmt(true)
}

//verif:override (*github.com/jmoiron/sqlx.Tx).Rebind
func verifTxRebind(tx *sqlx.Tx, query string) string { return query }

//verif:override (*github.com/jmoiron/sqlx.DB).Rebind
func verifDbRebind(db *sqlx.DB, query string) string { return query }

//verif:override github.com/jmoiron/sqlx.In
func verifIn(query string, args ...any) (string, []any, error) { return query, args, nil }

//verif:override (*database/sql.DB).Exec
func verifDbExec(db *sql.DB, query string, args ...any) (sql.Result, error) {
	if err := verifRec.stmt(false); err != nil {
		return nil, err
	}
	return verifResult{}, nil
}

//verif:override (*database/sql.DB).ExecContext
func verifDbExecContext(db *sql.DB, ctx context.Context, query string, args ...any) (sql.Result, error) {
	return verifDbExec(db, query, args...)
}

// last read query seen (engine: through the override below; natively: through the fake driver)
var verifLastQuery string
var verifLastArgs []any

//verif:override (*github.com/jmoiron/sqlx.DB).QueryxContext
func verifDbQueryxContext(db *sqlx.DB, ctx context.Context, query string, args ...any) (*sqlx.Rows, error) {
	if err := verifRec.stmt(false); err != nil {
		return nil, err
	}
	verifLastQuery = query
	verifLastArgs = nil
	for _, a := range args {
		if v, ok := a.(int); ok {
			a = int64(v)
		}
		verifLastArgs = append(verifLastArgs, a)
	}
	return &sqlx.Rows{}, nil
}

//verif:override (*github.com/jmoiron/sqlx.DB).GetContext
func verifDbGetContext(db *sqlx.DB, ctx context.Context, dest any, query string, args ...any) error {
	if err := verifRec.stmt(false); err != nil {
		return err
	}
	return sql.ErrNoRows
}

//verif:override github.com/tinode/chat/server/store.DecodeUid
func verifDecodeUid(uid t.Uid) int64 { return int64(uid) }

//verif:override github.com/tinode/chat/server/store.EncodeUid
func verifEncodeUid(id int64) t.Uid { return t.Uid(id) }

//verif:override github.com/tinode/chat/server/db/mysql.toJSON
func verifToJSON(src any) []byte {
	if src == nil {
		return nil
	}
	return []byte("{}")
}

// ---------------------------------------------------------------- native side: fake driver

type verifConnector struct{}

func (verifConnector) Connect(context.Context) (driver.Conn, error) { return &verifConn{}, nil }
func (verifConnector) Driver() driver.Driver                        { return verifDriver{} }

type verifDriver struct{}

func (verifDriver) Open(string) (driver.Conn, error) { return &verifConn{}, nil }

type verifConn struct{ inTx bool }

func (c *verifConn) Prepare(q string) (driver.Stmt, error) {
	if err := verifRec.stmt(c.inTx); err != nil {
		return nil, err
	}
	return &verifStmt{c}, nil
}
func (c *verifConn) Close() error { return nil }
func (c *verifConn) Begin() (driver.Tx, error) {
	verifRec.begin()
	c.inTx = true
	return &verifTx{c}, nil
}
func (c *verifConn) BeginTx(ctx context.Context, opts driver.TxOptions) (driver.Tx, error) {
	return c.Begin()
}
func (c *verifConn) ExecContext(ctx context.Context, q string, args []driver.NamedValue) (driver.Result, error) {
	if err := verifRec.stmt(c.inTx); err != nil {
		return nil, err
	}
	return verifResult{}, nil
}
func (c *verifConn) QueryContext(ctx context.Context, q string, args []driver.NamedValue) (driver.Rows, error) {
	if err := verifRec.stmt(c.inTx); err != nil {
		return nil, err
	}
	verifLastQuery = q
	verifLastArgs = nil
	for _, a := range args {
		verifLastArgs = append(verifLastArgs, a.Value)
	}
	if verifRec.finds(q) {
		return &verifOneRow{}, nil
	}
	return verifRows{}, nil
}

// Integers and strings are passed through (the query harness inspects them); everything else becomes 0.
func (c *verifConn) CheckNamedValue(nv *driver.NamedValue) error {
	switch v := nv.Value.(type) {
	case int:
		nv.Value = int64(v)
	case int64, string:
	default:
		nv.Value = int64(0)
	}
	return nil
}

type verifTx struct{ c *verifConn }

func (x *verifTx) Commit() error   { x.c.inTx = false; return verifRec.commit() }
func (x *verifTx) Rollback() error { x.c.inTx = false; return verifRec.rollback() }

type verifStmt struct{ c *verifConn }

func (s *verifStmt) Close() error  { return nil }
func (s *verifStmt) NumInput() int { return -1 }
func (s *verifStmt) Exec(args []driver.Value) (driver.Result, error) {
	if err := verifRec.stmt(s.c.inTx); err != nil {
		return nil, err
	}
	return verifResult{}, nil
}
func (s *verifStmt) Query(args []driver.Value) (driver.Rows, error) {
	if err := verifRec.stmt(s.c.inTx); err != nil {
		return nil, err
	}
	return verifRows{}, nil
}

// one row holding a single zero
type verifOneRow struct{ done bool }

func (*verifOneRow) Columns() []string { return []string{"c"} }
func (*verifOneRow) Close() error      { return nil }
func (r *verifOneRow) Next(dest []driver.Value) error {
	if r.done {
		return io.EOF
	}
	r.done = true
	dest[0] = int64(0)
	return nil
}

type verifRows struct{}

func (verifRows) Columns() []string         { return []string{"c"} }
func (verifRows) Close() error              { return nil }
func (verifRows) Next([]driver.Value) error { return io.EOF }

// ---------------------------------------------------------------- harness

func verifAdapter(nStmts int) *adapter {
	verifRec = &verifRecT{failAt: -1, dupAt: -1}
	f := verifNondetInt("failAt")
	verifAssume(f >= -1 && f < nStmts)
	verifRec.failAt = f
	d := verifNondetInt("dupAt")
	verifAssume(d >= -1 && d < nStmts && (d != f || d == -1))
	verifRec.dupAt = d
	verifRec.commitFails = verifNondetBool("commitFails")
	verifRec.commitTxDone = verifNondetBool("commitReportsTxDone")
	verifRec.affected = int64(verifChoose("rowsAffected", 2))
	return verifNewAdapter()
}

func verifNewAdapter() *adapter {
	a := &adapter{}
	if verifIsSymbolicEngine() {
		a.db = &sqlx.DB{}
	} else {
		a.db = sqlx.NewDb(sql.OpenDB(verifConnector{}), "mysql")
		a.db.SetMaxOpenConns(4)
	}
	return a
}

// verifCheckTx states the all-or-nothing contract for one operation that returned err.
func verifCheckTx(err error, name string) {
	r := verifRec
	verifAssert(r.begun >= 1, name+": runs in a transaction")
	verifAssert(r.open == 0, name+": no transaction left open")
	verifAssert(r.afterClose == 0, name+": no statement on a finished transaction")
	if r.failedGeneric {
		verifAssert(err != nil, name+": failed statement is reported")
		verifAssert(r.commits == 0, name+": nothing committed after a failed statement")
	}
	if r.commitFailed {
		verifAssert(err != nil, name+": failed commit is reported")
	}
	if err == nil {
		verifAssert(r.commits == r.begun && r.rollbacks == 0, name+": success means committed")
	} else {
		verifAssert(r.commits == 0, name+": an error means nothing was committed")
	}
	verifReach("end")
}

var verifNow = time.Unix(1700000000, 0)

func verifSub(user t.Uid, topic string, owner bool) *t.Subscription {
	s := &t.Subscription{User: user.String(), Topic: topic, ModeWant: t.ModeCPublic, ModeGiven: t.ModeCPublic}
	if owner {
		s.ModeWant, s.ModeGiven = t.ModeCFull, t.ModeCFull
	}
	return s
}

func Harness_C18_CredUpsert() {
	a := verifAdapter(6)
	cred := &t.Credential{User: t.Uid(7).String(), Method: "email", Value: "a@b.c", Resp: "123", Done: verifNondetBool("done")}
	if verifNondetBool("alreadyConfirmedBySomebody") {
		// the uniqueness probe finds a confirmed credential with this method:value
		verifRec.rowFor = "SELECT done FROM credentials"
	}
	_, err := a.CredUpsert(cred)
	if verifRec.rowFor != "" && !cred.Done && !verifRec.failedGeneric && !verifRec.failedDupe {
		verifAssert(err == t.ErrDuplicate, "CredUpsert: a credential somebody has confirmed is refused as a duplicate")
	}
	verifCheckTx(err, "CredUpsert")
}

func Harness_C18_CredDel() {
	a := verifAdapter(6)
	err := a.CredDel(7, []string{"", "email"}[verifChoose("method", 2)], []string{"", "a@b.c"}[verifChoose("value", 2)])
	verifCheckTx(err, "CredDel")
}

func Harness_C18_DeviceUpsert() {
	a := verifAdapter(4)
	err := a.DeviceUpsert(7, &t.DeviceDef{DeviceId: "dev", Platform: "web", LastSeen: verifNow, Lang: "en"})
	verifCheckTx(err, "DeviceUpsert")
}

func Harness_C18_DeviceDelete() {
	a := verifAdapter(4)
	err := a.DeviceDelete(7, []string{"", "dev"}[verifChoose("dev", 2)])
	verifCheckTx(err, "DeviceDelete")
}

func Harness_C18_UserCreate() {
	a := verifAdapter(8)
	u := &t.User{Tags: []string{"alpha", "beta"}}
	u.SetUid(7)
	err := a.UserCreate(u)
	verifCheckTx(err, "UserCreate")
}

func Harness_C18_UserUpdateTags() {
	a := verifAdapter(10)
	var reset []string
	if verifNondetBool("reset") {
		reset = []string{"gamma"}
	}
	_, err := a.UserUpdateTags(7, []string{"alpha"}, []string{"beta"}, reset)
	verifCheckTx(err, "UserUpdateTags")
}

func Harness_C18_UserUpdate() {
	a := verifAdapter(8)
	upd := map[string]any{"Public": "p"}
	if verifNondetBool("withTags") {
		upd["Tags"] = t.StringSlice{"alpha", "beta"}
	}
	err := a.UserUpdate(7, upd)
	verifCheckTx(err, "UserUpdate")
}

func Harness_C18_UserDelete() {
	a := verifAdapter(30)
	err := a.UserDelete(7, verifNondetBool("hard"))
	verifCheckTx(err, "UserDelete")
}

func Harness_C18_TopicCreate() {
	a := verifAdapter(8)
	tp := &t.Topic{Tags: []string{"alpha"}}
	tp.Id = "grpAAAAAAAAAAB"
	err := a.TopicCreate(tp)
	verifCheckTx(err, "TopicCreate")
}

func Harness_C18_TopicCreateP2P() {
	a := verifAdapter(10)
	name := t.Uid(7).P2PName(8)
	err := a.TopicCreateP2P(verifSub(7, name, false), verifSub(8, name, false))
	verifCheckTx(err, "TopicCreateP2P")
}

func Harness_C18_TopicShare() {
	a := verifAdapter(8)
	err := a.TopicShare([]*t.Subscription{verifSub(7, "grpAAAAAAAAAAB", true), verifSub(8, "grpAAAAAAAAAAB", false)})
	verifCheckTx(err, "TopicShare")
}

func Harness_C18_TopicDelete() {
	a := verifAdapter(16)
	err := a.TopicDelete("grpAAAAAAAAAAB", verifNondetBool("isChan"), verifNondetBool("hard"))
	verifCheckTx(err, "TopicDelete")
}

func Harness_C18_TopicUpdate() {
	a := verifAdapter(8)
	upd := map[string]any{"Public": "p"}
	if verifNondetBool("withTags") {
		upd["Tags"] = t.StringSlice{"alpha"}
	}
	err := a.TopicUpdate("grpAAAAAAAAAAB", upd)
	verifCheckTx(err, "TopicUpdate")
}

func Harness_C18_SubsUpdate() {
	a := verifAdapter(6)
	upd := map[string]any{"ModeWant": t.ModeCPublic}
	err := a.SubsUpdate("grpAAAAAAAAAAB", []t.Uid{0, 7}[verifChoose("user", 2)], upd)
	verifCheckTx(err, "SubsUpdate")
}

func Harness_C18_SubsDelete() {
	a := verifAdapter(8)
	err := a.SubsDelete([]string{"grpAAAAAAAAAAB", "chnAAAAAAAAAAB"}[verifChoose("topic", 2)], 7)
	verifCheckTx(err, "SubsDelete")
}

func Harness_C18_SubsDelForUser() {
	a := verifAdapter(10)
	err := a.SubsDelForUser(7, verifNondetBool("hard"))
	verifCheckTx(err, "SubsDelForUser")
}

func Harness_C18_MessageDeleteList() {
	a := verifAdapter(10)
	var del *t.DelMessage
	switch verifChoose("shape", 3) {
	case 0: // whole topic
	case 1:
		del = &t.DelMessage{Topic: "grpAAAAAAAAAAB", DelId: 3, DeletedFor: t.Uid(7).String(), SeqIdRanges: []t.Range{{Low: 1, Hi: 3}, {Low: 5}}}
	case 2:
		del = &t.DelMessage{Topic: "grpAAAAAAAAAAB", DelId: 3, SeqIdRanges: []t.Range{{Low: 1, Hi: 3}, {Low: 5}}}
	}
	err := a.MessageDeleteList("grpAAAAAAAAAAB", del)
	verifCheckTx(err, "MessageDeleteList")
}

func Harness_C18_FileFinishUpload() {
	a := verifAdapter(6)
	fd := &t.FileDef{Location: "loc"}
	fd.SetUid(9)
	_, err := a.FileFinishUpload(fd, verifNondetBool("success"), 10)
	verifCheckTx(err, "FileFinishUpload")
}

func Harness_C18_FileDeleteUnused() {
	a := verifAdapter(6)
	_, err := a.FileDeleteUnused(verifNow, 10)
	verifCheckTx(err, "FileDeleteUnused")
}

func Harness_C18_FileLinkAttachments() {
	a := verifAdapter(8)
	var topic string
	var uid, mid t.Uid
	switch verifChoose("target", 3) {
	case 0:
		topic = "grpAAAAAAAAAAB"
	case 1:
		uid = 7
	case 2:
		mid = 11
	}
	err := a.FileLinkAttachments(topic, uid, mid, []string{t.Uid(21).String(), t.Uid(22).String()})
	verifCheckTx(err, "FileLinkAttachments")
}

var _ = auth.LevelAuth
