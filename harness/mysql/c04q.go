//go:build verif && mysql

package mysql

import (
	"strings"

	"github.com/tinode/chat/server/store"
	t "github.com/tinode/chat/server/store/types"
)

// C04 (history query at the SQL boundary): the parameters MessageGetAll hands to the database describe exactly
// the half-open range [since, before) of the request, at most min(limit, configured maximum) rows, this topic
// and this user only. The SQL text is inspected for the clauses the parameters bind to; what the database
// does with them is the database's contract.
func Harness_C04_mysql_history_query() {
	verifRec = &verifRecT{failAt: -1, dupAt: -1}
	a := verifNewAdapter()
	a.maxMessageResults = 100
	var opts *t.QueryOpt
	since, before, limit := 0, 0, 0
	if verifNondetBool("opts") {
		since, before, limit = verifNondetInt("since"), verifNondetInt("before"), verifNondetInt("limit")
		verifAssume(since > -(1<<31) && since < 1<<31-1 && before > -(1<<31) && before < 1<<31-1 && limit > -(1<<31) && limit < 1<<31)
		opts = &t.QueryOpt{Since: since, Before: before, Limit: limit}
	}
	_, err := a.MessageGetAll("grpTOPIC", t.Uid(7), opts)
	verifAssert(err == nil, "history-query-runs")
	q := verifLastQuery
	verifAssert(strings.Contains(q, "m.delid=0") && strings.Contains(q, "m.topic=?") &&
		strings.Contains(q, "m.seqid BETWEEN ? AND ?") && strings.Contains(q, "d.deletedfor=?") &&
		strings.Contains(q, "d.deletedfor IS NULL") && strings.Contains(q, "ORDER BY m.seqid DESC LIMIT ?"), "history-query-shape")
	verifAssert(len(verifLastArgs) == 5, "history-query-arity")
	if len(verifLastArgs) == 5 {
		unum, _ := verifLastArgs[0].(int64)
		topic, _ := verifLastArgs[1].(string)
		lower, _ := verifLastArgs[2].(int64)
		upper, _ := verifLastArgs[3].(int64)
		lim, _ := verifLastArgs[4].(int64)
		verifAssert(unum == store.DecodeUid(t.Uid(7)) && topic == "grpTOPIC", "history-is-about-this-user-and-topic")
		x := int64(verifNondetInt("x"))
		verifAssume(x >= 1 && x < 1<<31-1)
		inReq := (since <= 0 || x >= int64(since)) && (before <= 0 || x < int64(before))
		verifAssert((lower <= x && x <= upper) == inReq, "history-bounds-are-the-half-open-range")
		verifAssert(lim >= 1 && lim <= 100, "history-limit-within-configured-maximum")
		if limit > 0 && limit < 100 {
			verifAssert(lim == int64(limit), "history-limit-as-requested")
		}
	}
	verifReach("end")
}
