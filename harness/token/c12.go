//go:build verif

package token

import (
	"bytes"
	"crypto/hmac"
	"crypto/sha256"
	"hash"
	"strconv"
	"time"

	"github.com/tinode/chat/server/auth"
	"github.com/tinode/chat/server/store/types"
)

// C12 (token part). HMAC-SHA256 is an uninterpreted function of (key, message): the result holds
// for every MAC function; unforgeability itself is the cryptographic assumption, not a result.

type verifMac struct {
	key []byte
	buf []byte
}

func (m *verifMac) Write(p []byte) (int, error) { m.buf = append(m.buf, p...); return len(p), nil }
func (m *verifMac) Sum(b []byte) []byte {
	if !verifIsSymbolicEngine() {
		// native replay: the MAC the real code uses
		h := hmac.New(sha256.New, m.key)
		h.Write(m.buf)
		return h.Sum(b)
	}
	return m.modelSum(b)
}

// modelSum is the uninterpreted MAC; natively it reads the model's values from the replay vector.
func (m *verifMac) modelSum(b []byte) []byte {
	args := make([]uint64, 0, len(m.key)+len(m.buf)+1)
	args = append(args, uint64(len(m.key)))
	for _, c := range m.key {
		args = append(args, uint64(c))
	}
	for _, c := range m.buf {
		args = append(args, uint64(c))
	}
	out := make([]byte, 32)
	for i := range out {
		out[i] = byte(verifUF("hmac_byte"+strconv.Itoa(i), 8, args...))
	}
	return append(b, out...)
}
func (m *verifMac) Reset()         { m.buf = nil }
func (m *verifMac) Size() int      { return 32 }
func (m *verifMac) BlockSize() int { return 64 }

//verif:override crypto/hmac.New
func verifHmacNew(h func() hash.Hash, key []byte) hash.Hash {
	return &verifMac{key: append([]byte{}, key...)}
}

const verifNowSec = 1700000000

func verifAuthenticator() *authenticator {
	verifSetClock(verifNowSec * 1000000000)
	return &authenticator{
		name:         "token",
		hmacSalt:     []byte("0123456789abcdef0123456789abcdef"),
		lifetime:     time.Hour,
		serialNumber: int(verifNondetU16("serial")),
	}
}

// A token the server issues authenticates, and yields exactly the user, level and features it was issued for.
func Harness_C12_token_roundtrip() {
	ta := verifAuthenticator()
	lvl := auth.Level(verifNondetU8("level"))
	verifAssume(lvl <= auth.LevelRoot)
	rec := &auth.Rec{
		Uid:       types.Uid(verifNondetU64("uid")),
		AuthLevel: lvl,
		Features:  auth.Feature(verifNondetU16("features")),
	}
	switch verifChoose("lifetime", 3) {
	case 0: // default lifetime
	case 1:
		rec.Lifetime = auth.Duration(2 * time.Second)
	case 2:
		rec.Lifetime = auth.Duration(14 * 24 * time.Hour)
	}
	tok, expires, err := ta.GenSecret(rec)
	verifAssert(err == nil && len(tok) == 50, "token-issued")
	verifAssert(expires.After(time.Now()), "expiry-in-the-future")
	got, _, err := ta.Authenticate(tok, "")
	verifAssert(err == nil && got != nil, "issued-token-authenticates")
	if got != nil {
		verifAssert(got.Uid == rec.Uid && got.AuthLevel == rec.AuthLevel && got.Features == rec.Features, "token-yields-what-it-was-issued-for")
	}
	verifReach("end")
}

// Native replay only. The solver's token carries (a prefix of) the signature of the *uninterpreted* MAC and an
// expiry relative to the model's clock (verifNowSec). If the signature bytes present are the model's valid
// signature for these fields, the token is re-signed with the real HMAC so that the real code sees the same
// situation - a correctly signed token with these fields, possibly cut short; an expiry that lies in the model's
// future but in the real past is first moved into the real future (the token stays "unexpired").
func verifNativeResign(ta *authenticator, tok []byte, n int) {
	sl := n - 18
	if sl > 32 {
		sl = 32
	}
	mm := &verifMac{key: ta.hmacSalt}
	mm.Write(tok[:18])
	if !bytes.Equal(mm.modelSum(nil)[:sl], tok[18:18+sl]) {
		return
	}
	exp := int64(uint32(tok[8]) | uint32(tok[9])<<8 | uint32(tok[10])<<16 | uint32(tok[11])<<24)
	if now := time.Now().Unix(); exp > verifNowSec && exp <= now+1 {
		e := uint32(now + 3600)
		tok[8], tok[9], tok[10], tok[11] = byte(e), byte(e>>8), byte(e>>16), byte(e>>24)
	}
	mm2 := &verifMac{key: ta.hmacSalt}
	mm2.Write(tok[:18])
	copy(tok[18:18+sl], mm2.Sum(nil)[:sl])
}

// An arbitrary byte string authenticates only if every check the property lists holds.
func harnessC12TokenAny(n int) {
	ta := verifAuthenticator()
	tok := verifNondetBytes("tok", n)
	if !verifIsSymbolicEngine() && n > 18 {
		verifNativeResign(ta, tok, n)
	}
	got, _, err := ta.Authenticate(tok, "")
	if n < 50 {
		verifAssert(err != nil && got == nil, "truncated-token-refused")
		verifReach("end")
		return
	}
	if err != nil {
		verifAssert(got == nil, "no-record-on-refusal")
		verifReach("end")
		return
	}
	// accepted: decode the layout by hand and re-check everything
	uid := uint64(0)
	for i := 7; i >= 0; i-- {
		uid = uid<<8 | uint64(tok[i])
	}
	expires := uint32(tok[8]) | uint32(tok[9])<<8 | uint32(tok[10])<<16 | uint32(tok[11])<<24
	level := uint16(tok[12]) | uint16(tok[13])<<8
	serial := uint16(tok[14]) | uint16(tok[15])<<8
	features := uint16(tok[16]) | uint16(tok[17])<<8
	mac := &verifMac{key: ta.hmacSalt}
	mac.Write(tok[:18])
	sig := mac.Sum(nil)
	for i := 0; i < 32; i++ {
		verifAssert(tok[18+i] == sig[i], "every-signature-byte-matches")
	}
	verifAssert(int(serial) == ta.serialNumber, "serial-number-matches")
	verifAssert(int64(expires) > verifNowSec, "not-expired")
	verifAssert(auth.Level(level) <= auth.LevelRoot, "level-valid")
	verifAssert(uint64(got.Uid) == uid && uint16(got.AuthLevel) == level && uint16(got.Features) == features, "record-is-the-signed-fields")
	verifReach("end")
}

func Harness_C12_token_any50() { harnessC12TokenAny(50) }
func Harness_C12_token_any51() { harnessC12TokenAny(51) }
func Harness_C12_token_any49() { harnessC12TokenAny(49) }
func Harness_C12_token_any0()  { harnessC12TokenAny(0) }
func Harness_C12_token_any19() { harnessC12TokenAny(19) }
