//go:build verif

package store

// Replay-only hook: gives the uid generator a key so that DecodeUid/EncodeUid work in a natively
// compiled harness without opening a database (under the gosym engine these two are overridden).
func init() {
	uGen.Init(1, []byte("0123456789abcdef"))
}
