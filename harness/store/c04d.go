//go:build verif

package store

import (
	"errors"

	"github.com/tinode/chat/server/db"
	"github.com/tinode/chat/server/store/types"
)

// C04 (deletion log, store boundary): the real messagesMapper.GetDeleted flattens the log entries the adapter
// returns (one per delete transaction, each with its own sorted list of ranges; the entries in ANY relative
// order - a later transaction may delete lower ids) into one list. That list covers exactly the ids the
// entries cover - no more, no fewer - is ascending and non-overlapping, and the reported delete id is the
// largest one.

type verifAdpDel struct {
	adapter.Adapter
	log []types.DelMessage
}

func (a *verifAdpDel) MessageGetDeleted(topic string, forUser types.Uid, opt *types.QueryOpt) ([]types.DelMessage, error) {
	return a.log, nil
}

func verifRange(name string) types.Range {
	lo := verifNondetInt(name + ".low")
	hi := verifNondetInt(name + ".hi")
	verifAssume(lo >= 1 && lo < 16 && (hi == 0 || (hi > lo && hi <= 17)))
	return types.Range{Low: lo, Hi: hi}
}

func verifCovers(r types.Range, x int) bool {
	if r.Hi == 0 {
		return x == r.Low
	}
	return r.Low <= x && x < r.Hi
}

func verifEnd(r types.Range) int {
	if r.Hi == 0 {
		return r.Low + 1
	}
	return r.Hi
}

func harnessC04StoreDelLog(perEntry []int) {
	a := &verifAdpDel{}
	var all []types.Range
	maxDel := 0
	for i, n := range perEntry {
		dm := types.DelMessage{Topic: "grpAAAAAAAAAAB", DelId: i + 1}
		for k := 0; k < n; k++ {
			r := verifRange("r")
			if k > 0 {
				// within one transaction the ranges are stored normalised: ascending, apart
				verifAssume(r.Low > verifEnd(dm.SeqIdRanges[k-1]))
			}
			dm.SeqIdRanges = append(dm.SeqIdRanges, r)
			all = append(all, r)
		}
		a.log = append(a.log, dm)
		maxDel = dm.DelId
	}
	adp = a
	out, delID, err := Messages.GetDeleted("grpAAAAAAAAAAB", types.Uid(1), nil)
	verifAssert(err == nil, "log-read")
	verifAssert(delID == maxDel, "largest-delete-id-reported")
	x := verifNondetInt("probe")
	verifAssume(x >= 0 && x < 20)
	in, got := false, false
	for _, r := range all {
		if verifCovers(r, x) {
			in = true
		}
	}
	for _, r := range out {
		if verifCovers(r, x) {
			got = true
		}
	}
	verifAssert(in == got, "log-covers-exactly-the-deleted-ids")
	for i := range out {
		verifAssert(out[i].Low >= 1 && (out[i].Hi == 0 || out[i].Hi > out[i].Low), "log-ranges-well-formed")
		if i > 0 {
			verifAssert(out[i].Low >= verifEnd(out[i-1]), "log-ranges-ascending-and-disjoint")
		}
	}
	verifReach("end")
}

func Harness_C04_store_dellog_1x1x1() { harnessC04StoreDelLog([]int{1, 1, 1}) }
func Harness_C04_store_dellog_2x1()   { harnessC04StoreDelLog([]int{2, 1}) }
func Harness_C04_store_dellog_2x2()   { harnessC04StoreDelLog([]int{2, 2}) }

// C04 (delete-transaction numbers, store boundary): the real messagesMapper.DeleteList - for a soft deletion (for
// one user) and for a hard one alike - logs the transaction under the given number and raises the topic row's
// delete counter to it (a reloaded topic continues numbering from that row: a number not recorded there would
// be issued twice), and records it on the subscription(s). Any failing adapter call is reported.
type verifAdpDelW struct {
	adapter.Adapter
	failAt, calls int
	logged        *types.DelMessage
	topicDelID    int
	subUser       types.Uid
	subDelID      int
	subUpdates    int
}

func (a *verifAdpDelW) fault() error {
	i := a.calls
	a.calls++
	if i == a.failAt {
		return verifErrDelW
	}
	return nil
}

var verifErrDelW = errors.New("verif: injected adapter fault")

func (a *verifAdpDelW) MessageDeleteList(topic string, toDel *types.DelMessage) error {
	if err := a.fault(); err != nil {
		return err
	}
	a.logged = toDel
	return nil
}
func (a *verifAdpDelW) TopicUpdate(topic string, update map[string]any) error {
	if err := a.fault(); err != nil {
		return err
	}
	if v, ok := update["DelId"].(int); ok {
		a.topicDelID = v
	}
	return nil
}
func (a *verifAdpDelW) SubsUpdate(topic string, user types.Uid, update map[string]any) error {
	if err := a.fault(); err != nil {
		return err
	}
	a.subUpdates++
	a.subUser = user
	if v, ok := update["DelId"].(int); ok {
		a.subDelID = v
	}
	return nil
}

func Harness_C04_store_delete_numbering() {
	a := &verifAdpDelW{failAt: verifChoose("failAt", 4) - 1}
	adp = a
	uGen.Init(1, []byte("0123456789abcdef"))
	prev := verifNondetInt("storedDelId")
	verifAssume(prev >= 0 && prev < 1<<30)
	a.topicDelID = prev
	delID := prev + 1
	forUser := types.ZeroUid // hard deletion
	if verifNondetBool("soft") {
		forUser = types.Uid(7)
	}
	err := Messages.DeleteList("grpAAAAAAAAAAB", delID, forUser, []types.Range{{Low: 3, Hi: 6}})
	if a.failAt >= 0 && a.failAt < a.calls {
		verifAssert(err != nil, "failed-write-is-reported")
	} else {
		verifAssert(err == nil, "deletion-recorded")
		verifAssert(a.logged != nil && a.logged.DelId == delID && a.logged.DeletedFor == forUser.String() && len(a.logged.SeqIdRanges) == 1, "transaction-logged-under-its-number")
		verifAssert(a.topicDelID == delID, "topic-row-carries-the-latest-delete-transaction-number")
		verifAssert(a.subUpdates == 1 && a.subUser == forUser && a.subDelID == delID, "subscriptions-carry-the-delete-transaction-number")
	}
	verifAssert(a.topicDelID >= prev, "delete-counter-never-decreases")
	verifReach("end")
}
