//go:build verif

package store
