//go:build verif

package store

import (
	"errors"
	"io"
	"net/http"

	adapter "github.com/tinode/chat/server/db"
	"github.com/tinode/chat/server/media"
	"github.com/tinode/chat/server/store/types"
)

// C01 (store boundary): the real messagesMapper.Save over an adapter fake. Whatever single adapter
// call fails - and at whatever call boundary the process dies - the stored topic high-water mark,
// from which a reload restores numbering, covers every message row that exists.

type verifAdp struct {
	adapter.Adapter // nil: any other call is a harness gap (nil dereference -> reported)
	topicSeq        int
	rows            []int
	marks           int
	links           int
	nCalls          int
	failAt          int
	failed          bool
}

var verifErrAdp = errors.New("verif: injected adapter fault")

func (a *verifAdp) step() error {
	// the invariant must hold between any two writes (a crash may happen here)
	for _, s := range a.rows {
		verifAssert(s <= a.topicSeq, "topic-row-covers-every-message-row-at-every-write-boundary")
	}
	idx := a.nCalls
	a.nCalls++
	if idx == a.failAt {
		a.failed = true
		return verifErrAdp
	}
	return nil
}

func (a *verifAdp) TopicUpdateOnMessage(topic string, msg *types.Message) error {
	if err := a.step(); err != nil {
		return err
	}
	a.topicSeq = msg.SeqId
	return nil
}
func (a *verifAdp) MessageSave(msg *types.Message) error {
	if err := a.step(); err != nil {
		return err
	}
	a.rows = append(a.rows, msg.SeqId)
	return nil
}
func (a *verifAdp) SubsUpdate(topic string, user types.Uid, update map[string]any) error {
	if err := a.step(); err != nil {
		return err
	}
	a.marks++
	return nil
}
func (a *verifAdp) FileLinkAttachments(topic string, userId, msgId types.Uid, fids []string) error {
	if err := a.step(); err != nil {
		return err
	}
	a.links++
	return nil
}

func Harness_C01_store_save() {
	a := &verifAdp{failAt: -1}
	a.topicSeq = verifNondetInt("storedSeq")
	verifAssume(a.topicSeq >= 0 && a.topicSeq < 1<<31)
	f := verifNondetInt("failAt")
	verifAssume(f >= -1 && f < 4)
	a.failAt = f
	adp = a
	uGen.Init(1, []byte("0123456789abcdef"))
	seq := a.topicSeq + 1
	msg := &types.Message{SeqId: seq, Topic: "grpAAAAAAAAAAB", From: types.Uid(7).String(), Content: "x"}
	// an ordinary message, an edit / call-status replacement of an earlier one, or a message with other headers:
	// each of them consumes a number and must raise the stored high-water mark
	switch verifChoose("head", 3) {
	case 1:
		msg.Head = map[string]any{"replace": ":1", "webrtc": "finished"}
	case 2:
		msg.Head = map[string]any{"mime": "text/x-drafty", "forwarded": "grpX:3"}
	}
	// the message may list an attachment (one more adapter call: linking)
	var atts []string
	if verifNondetBool("withAttachment") {
		mediaHandler = verifMediaFake{}
		atts = []string{"/v0/file/s/3"}
	}
	err, _ := Messages.Save(msg, atts, verifNondetBool("readBySender"))
	// final state (also a crash point)
	for _, s := range a.rows {
		verifAssert(s <= a.topicSeq, "topic-row-covers-every-message-row-at-every-write-boundary")
	}
	if err == nil {
		verifAssert(len(a.rows) == 1 && a.rows[0] == seq && a.topicSeq == seq, "accepted-message-stored-under-its-number")
	} else {
		verifAssert(len(a.rows) == 0, "failed-save-leaves-no-message-row")
	}
	verifReach("end")
}

// C13 (store boundary): a publish or description update that lists attachments must not crash a
// server that has no media handler configured.
func Harness_C13_store_attachments_without_media_handler() {
	a := &verifAdp{failAt: -1}
	adp = a
	uGen.Init(1, []byte("0123456789abcdef"))
	mediaHandler = nil
	url := verifNondetString("url", 0, 3, "")
	msg := &types.Message{SeqId: 1, Topic: "grpAAAAAAAAAAB", From: types.Uid(7).String(), Content: "x"}
	err, _ := Messages.Save(msg, []string{url}, false)
	verifAssert(err == nil, "message-with-attachments-saved-when-media-is-not-configured")
	err = Files.LinkAttachments("grpAAAAAAAAAAB", types.ZeroUid, []string{url})
	_ = err
	verifReach("end")
}

// ---- C16 (linking): attachments listed with a published message are linked to that message - whoever the
// author is and whether or not the author's own marks are updated - so that they are never collected while the
// message exists. Links are made for exactly the URLs that name an upload.

type verifMediaFake struct{}

func (verifMediaFake) Init(jsconf string) error { return nil }
func (verifMediaFake) Headers(req *http.Request, serve bool) (http.Header, int, error) {
	return nil, 0, nil
}
func (verifMediaFake) Upload(fdef *types.FileDef, file io.ReadSeeker) (string, int64, error) {
	return "", 0, nil
}
func (verifMediaFake) Download(url string) (*types.FileDef, media.ReadSeekCloser, error) {
	return nil, nil, nil
}
func (verifMediaFake) Delete(locations []string) error { return nil }
func (verifMediaFake) GetIdFromUrl(url string) types.Uid {
	// "/v0/file/s/<n>" names upload number n (1..9); anything else names nothing
	if len(url) == 12 && url[:11] == "/v0/file/s/" && url[11] >= '1' && url[11] <= '9' {
		return types.Uid(url[11] - '0')
	}
	return types.ZeroUid
}

func Harness_C16_store_save_links_attachments() {
	a := &verifAdp{failAt: -1}
	adp = a
	uGen.Init(1, []byte("0123456789abcdef"))
	mediaHandler = verifMediaFake{}
	urls := []string{"/v0/file/s/3", "http://elsewhere/x.png", "/v0/file/s/7"}
	n := verifChoose("attachments", 4)
	from := types.Uid(7).String()
	if verifNondetBool("systemAuthor") {
		from = ""
	}
	msg := &types.Message{SeqId: 1, Topic: "grpAAAAAAAAAAB", From: from, Content: "x"}
	err, _ := Messages.Save(msg, urls[:n], verifNondetBool("readBySender"))
	verifAssert(err == nil, "message-with-attachments-saved")
	named := 0
	for _, u := range urls[:n] {
		if !(verifMediaFake{}).GetIdFromUrl(u).IsZero() {
			named++
		}
	}
	if named > 0 {
		verifAssert(a.links == 1, "attachments-of-a-saved-message-are-linked")
	} else {
		verifAssert(a.links == 0, "nothing-linked-when-no-url-names-an-upload")
	}
	verifReach("end")
}
