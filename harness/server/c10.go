//go:build verif

package main

import (
	"time"

	"github.com/tinode/chat/server/auth"
	"github.com/tinode/chat/server/store/types"
)

// C10 — presence: (1) online counters equal the number of attached foreground sessions,
// (2) notifications reach only permitted subscribers, (3) the on/off handshake between two 'me'
// topics converges to the truth.

// ---- (1) counter invariant over attach / leave / foreground / unsubscribe
func verifCountForeground(t *Topic, u types.Uid) int {
	n := 0
	for s, pssd := range t.sessions {
		if pssd.uid == u && !pssd.isChanSub && !s.background {
			n++
		}
	}
	return n
}

func Harness_C10_online_counter_step() {
	fx := verifNewTopic(verifKindGrp, 2)
	t := fx.topic
	verifNotified = nil
	// two sessions per user, attached/background arbitrary; counters consistent (INV_online)
	var sess []*Session
	var owner []types.Uid
	for i, u := range fx.uids {
		for k := 0; k < 2; k++ {
			s := verifNewSession("sid-"+string(rune('a'+i))+string(rune('0'+k)), u, auth.LevelAuth, 32)
			s.inflightReqs = newBoundedWaitGroup(8)
			s.background = verifNondetBool("background")
			if verifNondetBool("attached") {
				t.sessions[s] = perSessionData{uid: u}
				s.subs[t.name] = &Subscription{broadcast: t.clientMsg, done: t.unreg, meta: t.meta, supd: t.supd}
			}
			sess = append(sess, s)
			owner = append(owner, u)
		}
	}
	// a root session acting on behalf of user 0: the session's own user differs from the user it is attached for
	{
		s := verifNewSession("sid-root", verifRootUid, auth.LevelRoot, 32)
		s.inflightReqs = newBoundedWaitGroup(8)
		if verifNondetBool("rootAttachedForUser0") {
			t.sessions[s] = perSessionData{uid: fx.uids[0]}
			s.subs[t.name] = &Subscription{broadcast: t.clientMsg, done: t.unreg, meta: t.meta, supd: t.supd}
		}
		sess = append(sess, s)
		owner = append(owner, fx.uids[0])
	}
	for _, u := range fx.uids {
		pud := t.perUser[u]
		pud.online = verifCountForeground(t, u)
		t.perUser[u] = pud
	}
	k := verifChoose("session", len(sess))
	s, u := sess[k], owner[k]
	_, attached := t.sessions[s]
	base := ClientComMessage{Id: "r1", AsUser: u.UserId(), AuthLvl: int(s.authLvl), Original: t.name, RcptTo: t.name,
		Timestamp: types.TimeNow(), sess: s, init: true}
	switch verifChoose("event", 7) {
	case 0: // attach
		verifAssume(!attached)
		s.inflightReqs.Add(1)
		msg := base
		msg.Sub = &MsgClientSub{Id: "r1", Topic: t.name}
		t.registerSession(&msg)
	case 1: // leave
		verifAssume(attached)
		s.inflightReqs.Add(1)
		msg := base
		msg.Leave = &MsgClientLeave{Id: "r1", Topic: t.name}
		t.unregisterSession(&msg)
	case 2: // background session comes to foreground
		verifAssume(attached && s.background)
		s.background = false
		t.sessToForeground(s)
	case 3: // disconnect: the whole session is dropped (init=false)
		verifAssume(attached)
		t.unregisterSession(&ClientComMessage{sess: s, init: false})
	case 4: // leave + unsubscribe
		verifAssume(attached && u != t.owner)
		s.inflightReqs.Add(1)
		msg := base
		msg.Leave = &MsgClientLeave{Id: "r1", Topic: t.name, Unsub: true}
		t.unregisterSession(&msg)
	case 5: // the user's sessions are evicted: banned (subscription kept) or removed
		verifAssume(u != t.owner)
		t.evictUser(u, verifNondetBool("evictUnsub"), "")
	case 6: // self-ban through a real {set sub mode=N} request
		verifAssume(attached && u != t.owner)
		s.inflightReqs.Add(1)
		msg := base
		msg.Set = &MsgClientSet{Id: "r1", Topic: t.name, MsgSetQuery: MsgSetQuery{Sub: &MsgSetSub{Mode: "N"}}}
		msg.MetaWhat = constMsgMetaSub
		t.handleMeta(&msg)
	}
	for _, v := range fx.uids {
		pud, in := t.perUser[v]
		if !in {
			verifAssert(verifCountForeground(t, v) == 0, "removed-user-has-no-attached-session")
			continue
		}
		verifAssert(pud.online >= 0, "online-count-never-negative")
		verifAssert(pud.online == verifCountForeground(t, v), "online-count-equals-attached-foreground-sessions")
	}
	verifReach("end")
}

// ---- (2) who receives a {pres} that arrives at a topic
func harnessC10PresFilter(kind int) {
	fx := verifNewTopic(kind, 2)
	t := fx.topic
	var sess []*Session
	var removed []bool
	for i, u := range fx.uids {
		pud := t.perUser[u]
		pud.modeWant, pud.modeGiven = verifMode("want"), verifMode("given")
		rem := false
		if kind == verifKindP2P {
			rem = verifNondetBool("removed")
			pud.deleted = rem
		}
		t.perUser[u] = pud
		s := verifNewSession("sid-"+string(rune('a'+i)), u, auth.LevelAuth, 32)
		if !rem && verifNondetBool("attached") {
			fx.attach(s, u, false)
		}
		sess = append(sess, s)
		removed = append(removed, rem)
	}
	stranger := verifNewSession("sid-x", verifStranger, auth.LevelAuth, 32)
	sess = append(sess, stranger)
	what := []string{"on", "off", "upd", "msg", "read", "recv", "del", "tags", "ua", "acs", "gone"}[verifChoose("what", 11)]
	pres := &MsgServerPres{Topic: t.xoriginal, What: what, Src: fx.uids[0].UserId(),
		FilterIn: int(verifNondetU8("filterIn")), FilterOut: int(verifNondetU8("filterOut"))}
	switch verifChoose("single", 3) {
	case 1:
		pres.SingleUser = fx.uids[1].UserId()
	case 2:
		pres.ExcludeUser = fx.uids[1].UserId()
	}
	t.handleServerMsg(&ServerComMessage{Pres: pres, RcptTo: t.name})
	for i, s := range sess {
		got := verifDrainSend(s)
		if len(got) == 0 {
			continue
		}
		verifAssert(i < len(fx.uids), "presence-never-reaches-strangers")
		if i >= len(fx.uids) {
			continue
		}
		u := fx.uids[i]
		pud := t.perUser[u]
		mode := pud.modeWant & pud.modeGiven
		_, att := t.sessions[s]
		verifAssert(att, "presence-only-to-attached-sessions")
		verifAssert(!removed[i], "presence-never-to-removed-users")
		verifAssert(mode.IsPresencer() || what == "acs" || what == "gone", "presence-only-with-P-permission")
		verifAssert(pres.FilterIn == 0 || int(mode)&pres.FilterIn != 0, "filter-in-respected")
		verifAssert(pres.FilterOut == 0 || int(mode)&pres.FilterOut == 0, "filter-out-respected")
		if pres.SingleUser != "" {
			verifAssert(u.UserId() == pres.SingleUser, "single-user-respected")
		}
		if pres.ExcludeUser != "" {
			verifAssert(u.UserId() != pres.ExcludeUser, "exclude-user-respected")
		}
		verifAssert(len(got) == 1, "presence-delivered-once")
	}
	verifReach("end")
}

func Harness_C10_pres_filter_grp() { harnessC10PresFilter(verifKindGrp) }
func Harness_C10_pres_filter_p2p() { harnessC10PresFilter(verifKindP2P) }

// ---- (3) convergence of the on/off handshake between the 'me' topics of two p2p partners
func verifMeTopic(u types.Uid) *Topic {
	t := &Topic{
		name: u.UserId(), xoriginal: "me", cat: types.TopicCatMe, status: topicStatusLoaded,
		perUser: map[types.Uid]perUserData{u: {modeWant: types.ModeCSelf, modeGiven: types.ModeCSelf}},
		perSubs:  map[string]perSubsData{},
		sessions: map[*Session]perSessionData{},
	}
	return t
}

// verifRoute delivers queued hub messages to the two 'me' topics until quiescence; returns false if
// the exchange does not settle within the bound.
func verifRoute(h *Hub, a, b *Topic) bool {
	for n := 0; n < 16; n++ {
		select {
		case m := <-h.routeSrv:
			switch m.RcptTo {
			case a.name:
				a.handleServerMsg(m)
			case b.name:
				b.handleServerMsg(m)
			}
		default:
			return true
		}
	}
	return false
}

func Harness_C10_p2p_handshake_converges() {
	verifNewStore()
	hub := verifInitGlobals()
	ua, ub := types.Uid(1), types.Uid(2)
	a, b := verifMeTopic(ua), verifMeTopic(ub)
	// each side's view of the other: arbitrary online flag; presence permission (enabled) arbitrary
	aEnabled, bEnabled := verifNondetBool("aSeesB"), verifNondetBool("bSeesA")
	a.perSubs[b.name] = perSubsData{online: verifNondetBool("aThinksBOn") && aEnabled, enabled: aEnabled}
	b.perSubs[a.name] = perSubsData{online: verifNondetBool("bThinksAOn") && bEnabled, enabled: bEnabled}
	// truth: whether each user has a foreground session on 'me'
	sa := verifNewSession("sid-a", ua, auth.LevelAuth, 32)
	sb := verifNewSession("sid-b", ub, auth.LevelAuth, 32)
	bOnline := verifNondetBool("bOnline")
	if bOnline {
		b.sessions[sb] = perSessionData{uid: ub}
	}
	// B's view of itself towards A must be consistent with B being offline: an offline 'me' topic is unloaded,
	// so when B is offline A last heard "off" (INV: a.perSubs[b].online => bOnline)
	verifAssume(!a.perSubs[b.name].online || bOnline)
	// event: A comes online or goes offline
	if verifNondetBool("aComesOnline") {
		a.sessions[sa] = perSessionData{uid: ua}
		a.presUsersOfInterest("on", "ua")
	} else {
		verifAssume(true)
		a.presUsersOfInterest("off", "ua")
		_ = sa
	}
	aOnline := len(a.sessions) > 0
	settled := verifRoute(hub, a, b)
	verifAssert(settled, "handshake-settles")
	if bEnabled && bOnline {
		verifAssert(b.perSubs[a.name].online == aOnline, "partner-last-told-the-truth-about-A")
	}
	if !bEnabled {
		verifAssert(!b.perSubs[a.name].online, "no-presence-permission-no-online-status")
	}
	if aEnabled && aOnline && bOnline {
		verifAssert(a.perSubs[b.name].online, "A-learns-that-B-is-online")
	}
	verifReach("end")
}

// ---- (4) settling after an idle unload: B comes online while A's 'me' topic is loaded without a foreground
// session and (possibly) without B in its contact table (contacts are loaded lazily / B is a new subscription);
// A may then come online; finally A's sessions are gone and A's 'me' topic times out through the real
// handleTopicTimeout. At quiescence B must have last been told "off" about A.
func Harness_C10_p2p_settles_after_unload() {
	verifNewStore()
	hub := verifInitGlobals()
	ua, ub := types.Uid(1), types.Uid(2)
	a, b := verifMeTopic(ua), verifMeTopic(ub)
	bEnabled := verifNondetBool("bSeesA")
	b.perSubs[a.name] = perSubsData{online: false, enabled: bEnabled}
	if verifNondetBool("aKnowsB") {
		a.perSubs[b.name] = perSubsData{online: false, enabled: verifNondetBool("aSeesB")}
	}
	sa := verifNewSession("sid-a", ua, auth.LevelAuth, 32)
	sb := verifNewSession("sid-b", ub, auth.LevelAuth, 32)
	// event 1: B comes online
	b.sessions[sb] = perSessionData{uid: ub}
	b.presUsersOfInterest("on", "ua-b")
	verifAssert(verifRoute(hub, a, b), "handshake-settles")
	// event 2 (optional): A gets a foreground session and announces it
	if verifNondetBool("aComesOnline") {
		a.sessions[sa] = perSessionData{uid: ua}
		a.presUsersOfInterest("on", "ua-a")
		verifAssert(verifRoute(hub, a, b), "handshake-settles")
		if bEnabled {
			verifAssert(b.perSubs[a.name].online, "partner-told-online-while-A-has-foreground-session")
		}
		delete(a.sessions, sa)
	}
	// event 3: A is idle, its 'me' topic is unloaded
	a.handleTopicTimeout(hub, "ua-a", time.NewTimer(time.Hour), time.NewTimer(time.Hour))
	verifAssert(verifRoute(hub, a, b), "handshake-settles")
	verifAssert(!b.perSubs[a.name].online, "partner-told-offline-after-A-unloaded")
	unregs := 0
	for len(hub.unreg) > 0 {
		<-hub.unreg
		unregs++
	}
	verifAssert(unregs == 1, "unloaded-topic-unregistered-once")
	verifReach("end")
}

// ---- (5) one step of the contact-table state machine (procPresReq on a 'me' topic) for a KNOWN contact:
// a contact this user does not take presence from is never recorded online; an enabled contact's recorded
// status is what it last reported; only a changed status of an enabled contact is forwarded to the sessions.
func Harness_C10_presreq_step() {
	verifNewStore()
	verifInitGlobals()
	me := verifMeTopic(types.Uid(1))
	from := types.Uid(2).UserId()
	en0 := verifNondetBool("enabled")
	on0 := verifNondetBool("online") && en0
	me.perSubs[from] = perSubsData{online: on0, enabled: en0}
	what := []string{"on", "off", "?none", "?unkn", "gone"}[verifChoose("what", 5)]
	cmd := []string{"", "+en", "+dis", "+rem"}[verifChoose("cmd", 4)]
	fwd := me.procPresReq(from, what+cmd, verifNondetBool("wantReply"))
	psd, in := me.perSubs[from]
	if cmd == "+rem" || what == "gone" {
		verifAssert(!in, "removed-contact-forgotten")
		if what == "gone" {
			// removal notices are delivered whether or not the user takes presence from the contact
			verifAssert(fwd == "gone", "removal-notice-forwarded-regardless-of-muting")
		}
	} else {
		verifAssert(in, "known-contact-stays")
		en1 := (en0 || cmd == "+en") && cmd != "+dis"
		verifAssert(psd.enabled == en1, "enabled-follows-the-command")
		verifAssert(psd.enabled || !psd.online, "disabled-contact-never-recorded-online")
		if psd.enabled {
			switch what {
			case "on":
				verifAssert(psd.online, "enabled-contact-online-after-on")
			case "off":
				verifAssert(!psd.online, "enabled-contact-offline-after-off")
			default:
				verifAssert(psd.online == on0, "status-unchanged-by-a-query")
			}
		}
		// what the user's sessions are told
		if psd.enabled && (what == "on" || what == "off") && psd.online != on0 {
			verifAssert(fwd == what, "changed-status-of-an-enabled-contact-is-forwarded")
		}
		if !psd.enabled && !en0 {
			verifAssert(fwd == "", "nothing-forwarded-about-a-disabled-contact")
		}
	}
	verifReach("end")
}

// mute then un-mute while the contact stays online: the user must be told "on" again
func Harness_C10_mute_unmute() {
	verifNewStore()
	verifInitGlobals()
	me := verifMeTopic(types.Uid(1))
	from := "grpAAAAAAAAAAB"
	me.perSubs[from] = perSubsData{online: true, enabled: true}
	f1 := me.procPresReq(from, "off+dis", false)
	verifAssert(f1 == "off", "muting-tells-the-user-off")
	f2 := me.procPresReq(from, []string{"on+en", "?unkn+en"}[verifChoose("unmute", 2)], false)
	if f2 != "on" {
		// the un-mute itself was a query: the contact then reports its status
		f2 = me.procPresReq(from, "on", false)
	}
	verifAssert(f2 == "on", "unmuting-an-online-contact-tells-the-user-on")
	verifReach("end")
}

// un-muting one's own 'me' topic ("on+en" to every contact) while online: muting had reset the whole contact table
// to offline, so the un-muted user has to learn again who is online, and the partner learns that the user is online.
func Harness_C10_me_unmute_resyncs() {
	verifNewStore()
	hub := verifInitGlobals()
	ua, ub := types.Uid(1), types.Uid(2)
	a, b := verifMeTopic(ua), verifMeTopic(ub)
	aEnabled := verifNondetBool("aSeesB")
	a.perSubs[b.name] = perSubsData{online: false, enabled: aEnabled}
	b.perSubs[a.name] = perSubsData{online: false, enabled: verifNondetBool("bSeesA")}
	sa := verifNewSession("sid-a", ua, auth.LevelAuth, 32)
	sb := verifNewSession("sid-b", ub, auth.LevelAuth, 32)
	a.sessions[sa] = perSessionData{uid: ua}
	bOnline := verifNondetBool("bOnline")
	if bOnline {
		b.sessions[sb] = perSessionData{uid: ub}
	}
	a.presUsersOfInterest("on+en", "ua")
	verifAssert(verifRoute(hub, a, b), "handshake-settles")
	if bOnline {
		verifAssert(b.perSubs[a.name].enabled && b.perSubs[a.name].online, "partner-told-online-by-the-unmuted-user")
		if aEnabled {
			verifAssert(a.perSubs[b.name].online, "unmuted-user-learns-that-the-partner-is-online")
		}
	}
	verifReach("end")
}

// ---- (6) receipts and typing notifications relayed to the 'me' topics of subscribers that are not attached
// (infoSubsOffline, infoCallSubsOffline): only current subscribers whose effective permissions include both
// presence and read get one, exactly one each, naming the true sender and the recipient's own name for the topic.
func harnessC10InfoOffline(kind int) {
	fx := verifNewTopic(kind, 2)
	t := fx.topic
	for _, u := range fx.uids {
		pud := t.perUser[u]
		pud.modeWant, pud.modeGiven = verifMode("want"), verifMode("given")
		if kind == verifKindGrp {
			pud.deleted = verifNondetBool("removed")
		}
		t.perUser[u] = pud
	}
	from := fx.uids[0]
	what := []string{"read", "recv", "kp"}[verifChoose("what", 3)]
	seq := verifNondetInt("seq")
	t.infoSubsOffline(from, what, seq, "sid-skip")
	got := map[string]int{}
	for _, m := range verifDrainHub(fx.hub) {
		if m == nil || m.Info == nil {
			continue
		}
		got[m.RcptTo]++
		uid := types.ParseUserId(m.RcptTo)
		pud, in := t.perUser[uid]
		verifAssert(in && !pud.deleted, "receipt-only-to-current-subscribers")
		mode := pud.modeWant & pud.modeGiven
		verifAssert(mode.IsPresencer() && mode.IsReader(), "receipt-only-with-presence-and-read-permission")
		verifAssert(m.Info.From == from.UserId() && m.Info.What == what && m.Info.SeqId == seq, "receipt-names-the-true-sender")
		verifAssert(m.Info.Topic == "me" && m.Info.Src == t.original(uid), "receipt-names-the-recipients-topic")
		verifAssert(m.SkipSid == "sid-skip" && m.Info.SkipTopic == t.name, "receipt-skips-the-origin-and-attached-sessions")
	}
	for _, u := range fx.uids {
		pud := t.perUser[u]
		mode := pud.modeWant & pud.modeGiven
		want := 0
		if !pud.deleted && mode.IsPresencer() && mode.IsReader() {
			want = 1
		}
		verifAssert(got[u.UserId()] == want, "every-entitled-subscriber-gets-exactly-one-receipt")
	}
	verifReach("end")
}

func Harness_C10_info_offline_grp() { harnessC10InfoOffline(verifKindGrp) }
func Harness_C10_info_offline_p2p() { harnessC10InfoOffline(verifKindP2P) }

// ---- notifications routed to the subscribers' 'me' topics (for their sessions not attached here): the real
// presSubsOffline and infoSubsOffline over arbitrary modes, with removed participants (p2p keeps their records):
// nothing is routed to a removed user or to anybody who is not a subscriber, every recipient passes the source
// filter, and receipts/typing go only to readers with presence permission.
func harnessC10OfflineRecipients(kind int) {
	fx := verifNewTopic(kind, 2)
	t := fx.topic
	removed := map[types.Uid]bool{}
	for _, u := range fx.uids {
		pud := t.perUser[u]
		pud.modeWant, pud.modeGiven = verifMode("want"), verifMode("given")
		if kind == verifKindP2P && verifNondetBool("removed") {
			pud.deleted = true
			removed[u] = true
		}
		t.perUser[u] = pud
	}
	member := func(name string) (types.Uid, bool) {
		for _, u := range fx.uids {
			if u.UserId() == name {
				return u, true
			}
		}
		return 0, false
	}
	if verifNondetBool("receipt") {
		what := []string{"read", "recv", "kp"}[verifChoose("infoWhat", 3)]
		t.infoSubsOffline(fx.uids[0], what, 5, "sid-x")
		for _, m := range verifDrainHub(fx.hub) {
			u, ok := member(m.RcptTo)
			verifAssert(ok && m.Info != nil, "receipt-routed-to-subscribers-only")
			if !ok {
				continue
			}
			pud := t.perUser[u]
			mode := pud.modeWant & pud.modeGiven
			verifAssert(!removed[u], "receipt-never-to-removed-users")
			verifAssert(mode.IsPresencer() && mode.IsReader(), "receipt-only-to-readers-with-presence-permission")
			verifAssert(m.Info.Src == t.original(u) && m.Info.SkipTopic == t.name, "receipt-names-the-recipients-view-of-the-topic")
		}
		verifReach("end")
		return
	}
	what := []string{"on", "off", "upd", "msg", "del", "acs", "gone", "tags"}[verifChoose("what", 8)]
	src := &presFilters{filterIn: types.AccessMode(verifNondetU8("filterIn")), filterOut: types.AccessMode(verifNondetU8("filterOut"))}
	t.presSubsOffline(what, &presParams{seqID: 7, actor: fx.uids[0].UserId()}, src, nilPresFilters, "sid-x", verifNondetBool("offlineOnly"))
	seen := map[types.Uid]int{}
	for _, m := range verifDrainHub(fx.hub) {
		u, ok := member(m.RcptTo)
		verifAssert(ok && m.Pres != nil, "notification-routed-to-subscribers-only")
		if !ok {
			continue
		}
		seen[u]++
		pud := t.perUser[u]
		mode := pud.modeWant & pud.modeGiven
		verifAssert(!removed[u], "notification-never-to-removed-users")
		verifAssert(seen[u] == 1, "notification-routed-once-per-user")
		// access changes and removal notices go to everybody concerned; a description update to every joiner;
		// everything else needs presence permission and must pass the source filter
		if what != "acs" && what != "gone" && !(what == "upd" && mode.IsJoiner()) {
			verifAssert(mode.IsPresencer(), "notification-only-with-P-permission")
			verifAssert(src.filterIn == 0 || mode&src.filterIn != 0, "filter-in-respected")
			verifAssert(src.filterOut == 0 || mode&src.filterOut == 0, "filter-out-respected")
		}
		verifAssert(m.Pres.Src == t.original(u) && m.Pres.Topic == "me", "notification-names-the-recipients-view-of-the-topic")
	}
	verifReach("end")
}

func Harness_C10_offline_recipients_grp() { harnessC10OfflineRecipients(verifKindGrp) }
func Harness_C10_offline_recipients_p2p() { harnessC10OfflineRecipients(verifKindP2P) }

// ---- a group topic is unloaded when idle: whatever it had announced before (it answers "on" to any member's
// status query as long as it is in memory, announced or not), every member allowed to see presence is told "off"
// on 'me', exactly once, and the topic is handed to the hub for unloading.
func Harness_C10_group_unload_announces_off() {
	fx := verifNewTopic(verifKindGrp, 3)
	t := fx.topic
	for _, u := range fx.uids {
		pud := t.perUser[u]
		pud.modeWant, pud.modeGiven = verifMode("want"), verifMode("given")
		t.perUser[u] = pud
	}
	// the "loaded" mark (set once a foreground session attached and "on" was broadcast) is arbitrary
	if verifNondetBool("announcedOnline") {
		t.status |= topicStatusLoaded
	} else {
		t.status &^= topicStatusLoaded
	}
	t.handleTopicTimeout(fx.hub, "", time.NewTimer(time.Hour), time.NewTimer(time.Hour))
	told := map[string]int{}
	for _, m := range verifDrainHub(fx.hub) {
		if m.Pres != nil && m.Pres.What == "off" && m.Pres.Topic == "me" && m.Pres.Src == t.name {
			told[m.RcptTo]++
		}
	}
	for _, u := range fx.uids {
		pud := t.perUser[u]
		if (pud.modeWant & pud.modeGiven).IsPresencer() {
			verifAssert(told[u.UserId()] == 1, "member-told-the-group-went-offline")
		} else {
			verifAssert(told[u.UserId()] == 0, "presence-only-with-P-permission")
		}
	}
	verifAssert(len(fx.hub.unreg) == 1, "unloaded-topic-unregistered-once")
	verifReach("end")
}


// ---- the contact table of a 'me' topic as rebuilt from the store (the real loadContacts): a contact is taken
// presence from exactly when the user's EFFECTIVE mode on that subscription (want & given) includes presence -
// a subscription the user has muted (P dropped from its own requested mode) stays muted after 'me' was
// unloaded and loaded again.
func Harness_C10_contacts_reloaded_keep_muting() {
	verifNewStore()
	verifInitGlobals()
	u := types.Uid(1)
	me := verifMeTopic(u)
	peer := types.Uid(2).UserId()
	verifUserSubs = []types.Subscription{
		{User: u.String(), Topic: u.P2PName(types.Uid(2)), ModeWant: verifMode("wantP2P"), ModeGiven: verifMode("givenP2P")},
		{User: u.String(), Topic: "grpAAAAAAAAAAB", ModeWant: verifMode("wantGrp"), ModeGiven: verifMode("givenGrp")},
	}
	verifUserSubs[0].SetWith(peer)
	err := me.loadContacts(u)
	verifAssert(err == nil, "contacts-loaded")
	for i, name := range []string{peer, "grpAAAAAAAAAAB"} {
		sub := verifUserSubs[i]
		ps, ok := me.perSubs[name]
		verifAssert(ok, "every-subscription-is-a-contact")
		verifAssert(ps.enabled == (sub.ModeWant & sub.ModeGiven).IsPresencer(), "presence-taken-only-with-effective-P-permission")
		verifAssert(!ps.online, "reloaded-contact-starts-offline")
	}
	verifReach("end")
}
