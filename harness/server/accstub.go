//go:build verif

package main

import (
	"github.com/tinode/chat/server/auth"
)

// ---- account management entry points are outside the session-state property: record the hand-over

//verif:override github.com/tinode/chat/server.replyCreateUser
func verifReplyCreateUser(s *Session, msg *ClientComMessage, rec *auth.Rec) {
	verifAccCalls = append(verifAccCalls, "create")
	s.queueOut(NoErr(msg.Id, "", msg.Timestamp))
}

//verif:override github.com/tinode/chat/server.replyUpdateUser
func verifReplyUpdateUser(s *Session, msg *ClientComMessage, rec *auth.Rec) {
	verifAccCalls = append(verifAccCalls, "update")
	s.queueOut(NoErr(msg.Id, "", msg.Timestamp))
}

//verif:override github.com/tinode/chat/server.replyDelUser
func verifReplyDelUser(s *Session, msg *ClientComMessage) {
	verifAccCalls = append(verifAccCalls, "deluser")
	s.queueOut(NoErr(msg.Id, "", msg.Timestamp))
}
