//go:build verif

package main

import (
	"time"

	"github.com/tinode/chat/server/auth"
	"github.com/tinode/chat/server/store/types"
)

// C07 — permissions change only through authorised requests (relational, old -> new per user).

func harnessC07Step(nMembers, op int) {
	w := verifSubSetup(nMembers)
	t := w.t
	ownerBefore := t.owner
	opDone, target, replies := w.step(op)
	_ = replies
	actor := w.actor
	apud, actorWasIn := w.before[actor]
	aMode := apud.modeWant & apud.modeGiven
	defGiven := t.accessFor(auth.LevelAuth)
	for _, u := range w.allUsers() {
		old, wasIn := w.before[u]
		now, isIn := t.perUser[u]
		if !isIn {
			continue // removal is covered by C06 (owner) and by the unsub rules below
		}
		givenChanged := !wasIn || now.modeGiven != old.modeGiven
		wantChanged := !wasIn || now.modeWant != old.modeWant
		if givenChanged {
			if u == actor {
				if !wasIn {
					// first subscription: the default grant, or the previous grant of a former member
					if prev, had := w.sbefore[u]; had {
						verifAssert(now.modeGiven == prev.ModeGiven, "resubscribing-restores-the-previous-grant")
					} else {
						verifAssert(now.modeGiven == defGiven, "first-subscription-gets-the-default-grant")
					}
				} else if u == ownerBefore || (u == t.owner && old.modeGiven.IsOwner()) {
					// the owner - or a transferee holding the owner's grant who accepts ownership in this very
					// step - may grant itself anything
					verifAssert(now.modeGiven&old.modeGiven == old.modeGiven, "owner-only-raises-own-grant")
				} else {
					// an approver of a group may raise its own grant by anything except O and D
					verifAssert(old.modeGiven.IsAdmin(), "own-grant-raised-only-by-an-approver")
					added := now.modeGiven &^ old.modeGiven
					verifAssert(added&(types.ModeOwner|types.ModeDelete) == 0, "approver-cannot-give-itself-owner-or-delete")
					verifAssert(now.modeGiven&old.modeGiven == old.modeGiven, "approver-only-raises-own-grant")
				}
			} else if t.owner != ownerBefore && u == ownerBefore {
				// the ownership bit cleared from the previous owner at a transfer
				verifAssert(now.modeGiven == old.modeGiven&^types.ModeOwner, "transfer-clears-only-the-owner-bit-of-the-previous-owner")
			} else {
				// somebody else changed u's grant
				verifAssert(actorWasIn, "grant-changed-only-by-a-subscriber")
				if !wasIn {
					// invitation
					verifAssert(aMode.IsSharer(), "invitation-only-by-a-sharer-approver-or-owner")
					if !aMode.IsAdmin() {
						verifAssert(now.modeGiven == defGiven|types.ModeJoin, "sharer-invites-with-default-access-only")
					}
				} else {
					verifAssert(aMode.IsAdmin(), "grant-changed-only-by-an-approver-or-owner")
				}
				if now.modeGiven.IsOwner() && !(wasIn && old.modeGiven.IsOwner()) {
					verifAssert(actor == ownerBefore, "only-the-owner-grants-ownership")
				}
			}
		}
		if wantChanged {
			if u == actor {
				// fine: a user changes its own requested mode
			} else if !wasIn {
				// invited by someone else: defaults chosen for the invitee (previous request or account default within the grant)
				if prev, had := w.sbefore[u]; had {
					verifAssert(now.modeWant == prev.ModeWant, "invitee-keeps-its-previous-request")
				} else {
					verifAssert(now.modeWant == types.ModeCAuth&now.modeGiven, "invitee-gets-account-default-within-the-grant")
				}
			} else if t.owner != ownerBefore && u == ownerBefore {
				verifAssert(now.modeWant == old.modeWant&^types.ModeOwner, "transfer-clears-only-the-owner-bit-of-the-previous-owner")
			} else {
				verifAssert(false, "requested-mode-changed-only-by-its-user")
			}
		}
		// a user whose grant lacks join is not attached
		if !now.modeGiven.IsJoiner() {
			_, att := t.sessions[w.sess[u]]
			verifAssert(!att, "no-join-grant-no-attachment")
		}
	}
	// counted independently of Topic.subsCount: every entry of the member table takes a slot, blocked ones too
	verifAssert(len(t.perUser) <= globals.maxSubscriberCount || len(t.perUser) <= len(w.before), "subscriber-limit-holds")
	w.assertChangesNotified()
	_ = opDone
	_ = target
	verifReach("end")
}

func Harness_C07_step_2()          { harnessC07Step(2, -1) }

// A former member resubscribes: whatever its previous grant was (including none at all), it is restored.
func Harness_C07_resub_prev_grant() {
	verifPrevBase = types.ModeNone
	verifForceActor = 2 // the former member
	harnessC07Step(2, verifOpSub)
}
// An approver (and anybody else) changing its own subscription with the delete bit in play: D is symbolic in
// every mode in addition to O, J, A, S.
func Harness_C07_self_with_delete_bit() {
	verifSubBits |= types.ModeDelete
	harnessC07Step(2, verifOpSetSelf)
}
func Harness_C07_other_with_delete_bit() {
	verifSubBits |= types.ModeDelete
	harnessC07Step(2, verifOpSetOther)
}
// One ordinary member changes the grant of another ordinary member (needs three members: the owner is
// protected and former members / strangers are invitations).
func Harness_C07_member_regrades_member() {
	verifForceActor, verifForceTarget = 1, 2
	harnessC07Step(3, verifOpSetOther)
}
// A group that is full (limit = current membership, some members possibly blocked) admits nobody.
func Harness_C07_full_group_admits_nobody() {
	verifSubLimit = 2
	harnessC07Step(2, verifChoose("op", 2)*verifOpSetOther) // {sub} or {set sub user=...}
}
func Harness_C07_step_3_sub()      { harnessC07Step(3, verifOpSub) }
func Harness_C07_step_3_setself()  { harnessC07Step(3, verifOpSetSelf) }
func Harness_C07_step_3_setother() { harnessC07Step(3, verifOpSetOther) }

// p2p: never a third participant; modes never exceed JRWPA and always keep A.
func Harness_C07_p2p_step()       { harnessC07P2P(types.ModeBitmask) }
func Harness_C07_p2p_step_quick() { harnessC07P2P(types.ModeJoin | types.ModeApprove | types.ModeOwner | types.ModeDelete) }

func harnessC07P2P(reqBits types.AccessMode) {
	fx := verifNewTopic(verifKindP2P, 2)
	t := fx.topic
	verifNotified = nil
	for _, u := range fx.uids {
		pud := t.perUser[u]
		pud.modeWant = (verifMode("want") & types.ModeCP2P & (reqBits | types.ModeRead)) | types.ModeApprove
		pud.modeGiven = (verifMode("given") & types.ModeCP2P & (reqBits | types.ModeRead)) | types.ModeApprove
		t.perUser[u] = pud
		sub := fx.store.subs[verifSubKey(t.name, u)]
		sub.ModeWant, sub.ModeGiven = pud.modeWant, pud.modeGiven
		fx.store.users[u] = &types.User{State: types.StateOK, Access: types.DefaultAccess{Auth: types.ModeCAuth}}
	}
	fx.store.users[verifStranger] = &types.User{State: types.StateOK, Access: types.DefaultAccess{Auth: types.ModeCAuth}}
	actor := fx.uids[verifChoose("actor", 2)]
	other := fx.uids[0]
	if actor == other {
		other = fx.uids[1]
	}
	sess := verifNewSession("sid-a", actor, auth.LevelAuth, 32)
	sess.inflightReqs = newBoundedWaitGroup(8)
	if (t.perUser[actor].modeWant & t.perUser[actor].modeGiven).IsJoiner() {
		fx.attach(sess, actor, false)
	}
	mode := ((verifMode("reqMode") & reqBits) | types.ModeRead).String()
	if !verifNondetBool("withMode") {
		mode = "" // default / re-invite
	}
	if verifNondetBool("peerHasLeft") {
		// the other participant unsubscribed earlier: marked removed in the live topic, soft-deleted in the store
		pud := t.perUser[other]
		pud.deleted = true
		t.perUser[other] = pud
		now := types.TimeNow()
		fx.store.subs[verifSubKey(t.name, other)].DeletedAt = &now
	}
	target := []types.Uid{actor, other, verifStranger}[verifChoose("target", 3)]
	msg := &ClientComMessage{Id: "r1", AsUser: actor.UserId(), AuthLvl: int(auth.LevelAuth), Original: other.UserId(), RcptTo: t.name,
		Timestamp: types.TimeNow(), sess: sess, init: true, MetaWhat: constMsgMetaSub}
	su := ""
	if target != actor {
		su = target.UserId()
	}
	msg.Set = &MsgClientSet{Id: "r1", Topic: other.UserId(), MsgSetQuery: MsgSetQuery{Sub: &MsgSetSub{User: su, Mode: mode}}}
	t.handleMeta(msg)
	verifAssert(len(t.perUser) <= 2, "p2p-never-has-a-third-participant")
	_, strangerIn := t.perUser[verifStranger]
	verifAssert(!strangerIn, "p2p-never-has-a-third-participant")
	for _, u := range fx.uids {
		p := t.perUser[u]
		verifAssert(p.modeWant&^types.ModeCP2P == 0 && p.modeGiven&^types.ModeCP2P == 0, "p2p-modes-within-JRWPA")
		verifAssert(p.modeWant.IsApprover() && p.modeGiven.IsApprover(), "p2p-modes-keep-approve")
		peer := fx.uids[0]
		if u == peer {
			peer = fx.uids[1]
		}
		verifAssert(t.original(u) == peer.UserId(), "p2p-topic-shows-each-participant-the-other")
		if row := fx.store.subs[verifSubKey(t.name, u)]; row != nil {
			verifAssert(row.ModeWant&^types.ModeCP2P == 0 && row.ModeGiven&^types.ModeCP2P == 0, "stored-p2p-modes-within-JRWPA")
			verifAssert(row.ModeWant.IsApprover() && row.ModeGiven.IsApprover(), "stored-p2p-modes-keep-approve")
		}
	}
	verifReach("end")
}

// me / fnd admit only their own user: the routable name is derived from the acting user.
func Harness_C07_me_fnd_routing() {
	u := types.Uid(verifNondetU64("uid"))
	verifAssume(u != 0)
	s := verifNewDispatchSessionLite(u)
	which := []string{"me", "fnd"}[verifChoose("which", 2)]
	rcpt, resp := s.expandTopicName(&ClientComMessage{Original: which, AsUser: u.UserId(), Id: "x"})
	verifAssert(resp == nil, "me-fnd-always-resolve")
	if which == "me" {
		verifAssert(rcpt == u.UserId(), "me-routes-to-own-user-topic")
	} else {
		verifAssert(rcpt == u.FndName(), "fnd-routes-to-own-search-topic")
	}
	verifReach("end")
}

func verifNewDispatchSessionLite(u types.Uid) *Session {
	return verifNewSession("sid-x", u, auth.LevelAuth, 8)
}

// sys admits only root.
func Harness_C07_sys_needs_root() {
	fx := verifNewTopic(verifKindSys, 0)
	t := fx.topic
	verifNotified = nil
	lvl := []auth.Level{auth.LevelAnon, auth.LevelAuth, auth.LevelRoot}[verifChoose("level", 3)]
	u := types.Uid(5)
	sess := verifNewSession("sid-a", u, lvl, 32)
	sess.inflightReqs = newBoundedWaitGroup(8)
	sess.inflightReqs.Add(1)
	msg := &ClientComMessage{Id: "r1", AsUser: u.UserId(), AuthLvl: int(lvl), Original: "sys", RcptTo: "sys",
		Timestamp: types.TimeNow(), sess: sess, init: true, Sub: &MsgClientSub{Id: "r1", Topic: "sys"}}
	if m := verifMode("want"); m != 0 {
		msg.Sub.Set = &MsgSetQuery{Sub: &MsgSetSub{Mode: m.String()}}
	}
	t.registerSession(msg)
	_, in := t.perUser[u]
	_, att := t.sessions[sess]
	verifAssert((in || att) == (lvl == auth.LevelRoot), "sys-admits-only-root")
	verifReach("end")
}

// {set sub} to a p2p topic that is not loaded (hub's replyOfflineTopicSetSub): the stored requested mode stays
// within JRWPA and keeps A, only the requester's own row changes, nobody's grant changes.
func Harness_C07_offline_p2p_set_sub() {
	fx := verifNewTopic(verifKindP2P, 2)
	t := fx.topic
	verifNotified = nil
	actor := fx.uids[verifChoose("actor", 2)]
	other := fx.uids[0]
	if actor == other {
		other = fx.uids[1]
	}
	sess := verifNewSession("sid-offline", actor, auth.LevelAuth, 16)
	mode := (verifMode("reqMode") &^ types.ModeOwner).String()
	before := map[types.Uid]types.Subscription{}
	for _, u := range fx.uids {
		before[u] = *fx.store.subs[verifSubKey(t.name, u)]
	}
	msg := &ClientComMessage{Id: "r1", AsUser: actor.UserId(), AuthLvl: int(auth.LevelAuth), Original: other.UserId(), RcptTo: t.name,
		Timestamp: types.TimeNow(), sess: sess, init: true, MetaWhat: constMsgMetaSub,
		Set: &MsgClientSet{Id: "r1", Topic: other.UserId(), MsgSetQuery: MsgSetQuery{Sub: &MsgSetSub{Mode: mode}}}}
	replyOfflineTopicSetSub(sess, msg)
	n := 0
	for _, r := range verifDrainSend(sess) {
		if r != nil && r.Ctrl != nil && r.Ctrl.Id == "r1" {
			n++
		}
	}
	verifAssert(n == 1, "offline-set-answered-exactly-once")
	for _, u := range fx.uids {
		sub := fx.store.subs[verifSubKey(t.name, u)]
		verifAssert(sub.ModeGiven == before[u].ModeGiven, "offline-set-changes-no-grant")
		if u != actor {
			verifAssert(sub.ModeWant == before[u].ModeWant, "requested-mode-changed-only-by-its-user")
		}
		verifAssert(sub.ModeWant&^types.ModeCP2P == 0, "p2p-modes-within-JRWPA")
		verifAssert(sub.ModeWant.IsApprover(), "p2p-modes-keep-approve")
	}
	verifReach("end")
}

// A user's search topic admits only its own user: a stranger (at any level) who addresses a loaded 'fnd' topic
// by its literal name is refused, gets no subscription row and is not attached. The topic is built by the real
// initTopicFnd, so the default access that must keep everybody out comes from the code under test.
func Harness_C07_fnd_admits_only_its_user() {
	verifNewStore()
	verifInitGlobals()
	victim, stranger := types.Uid(5), types.Uid(9)
	name := victim.FndName()
	for _, u := range []types.Uid{victim, stranger} {
		usr := &types.User{State: types.StateOK, Access: types.DefaultAccess{Auth: types.ModeCAuth, Anon: types.ModeNone}}
		usr.SetUid(u)
		verifStore.users[u] = usr
	}
	verifStore.subs[verifSubKey(name, victim)] = &types.Subscription{User: victim.String(), Topic: name, ModeWant: types.ModeCSelf, ModeGiven: types.ModeCSelf}
	verifStore.topics[name] = &types.Topic{ObjHeader: types.ObjHeader{Id: name}}
	own := verifNewSession("sid-v", victim, auth.LevelAuth, 16)
	t := &Topic{name: name, xoriginal: "fnd", perUser: map[types.Uid]perUserData{}, sessions: map[*Session]perSessionData{},
		clientMsg: make(chan *ClientComMessage, 8), meta: make(chan *ClientComMessage, 8), unreg: make(chan *ClientComMessage, 8), supd: make(chan *sessionUpdate, 8),
		killTimer: time.NewTimer(time.Hour)}
	err := initTopicFnd(t, &ClientComMessage{AsUser: victim.UserId(), sess: own, Sub: &MsgClientSub{Topic: "fnd"}})
	verifAssert(err == nil && len(t.perUser) == 1, "search-topic-loads-with-its-user")
	lvl := []auth.Level{auth.LevelAnon, auth.LevelAuth, auth.LevelRoot}[verifChoose("level", 3)]
	s := verifNewSession("sid-s", stranger, lvl, 16)
	s.inflightReqs = newBoundedWaitGroup(8)
	s.inflightReqs.Add(1)
	msg := &ClientComMessage{Id: "r1", AsUser: stranger.UserId(), AuthLvl: int(lvl), Original: name, RcptTo: name,
		Timestamp: types.TimeNow(), sess: s, init: true, Sub: &MsgClientSub{Id: "r1", Topic: name}}
	if m := []string{"", "JPS", "JRWPS"}[verifChoose("mode", 3)]; m != "" {
		msg.Sub.Set = &MsgSetQuery{Sub: &MsgSetSub{Mode: m}}
	}
	t.registerSession(msg)
	_, in := t.perUser[stranger]
	_, att := t.sessions[s]
	verifAssert(!in && !att, "search-topic-admits-only-its-own-user")
	verifAssert(verifStore.subs[verifSubKey(name, stranger)] == nil, "stranger-gets-no-subscription-to-a-search-topic")
	refused := false
	for _, r := range verifDrainSend(s) {
		if r != nil && r.Ctrl != nil && r.Ctrl.Id == "r1" && r.Ctrl.Code >= 400 {
			refused = true
		}
	}
	verifAssert(refused, "stranger-is-told-no")
	verifReach("end")
}

// A user's 'me' topic admits only its own user: the user itself cannot invite anybody onto it ({set sub user=X}
// on 'me'), and nobody else ends up in its member table or with a subscription row for it.
func Harness_C07_me_admits_only_its_user() {
	verifNewStore()
	verifInitGlobals()
	owner, other := types.Uid(5), types.Uid(9)
	name := owner.UserId()
	for _, u := range []types.Uid{owner, other} {
		usr := &types.User{State: types.StateOK, Access: types.DefaultAccess{Auth: types.ModeCP2P, Anon: types.ModeNone}}
		usr.SetUid(u)
		verifStore.users[u] = usr
	}
	verifStore.subs[verifSubKey(name, owner)] = &types.Subscription{User: owner.String(), Topic: name, ModeWant: types.ModeCSelf, ModeGiven: types.ModeCSelf}
	s := verifNewSession("sid-o", owner, auth.LevelAuth, 16)
	t := &Topic{name: name, xoriginal: "me", perUser: map[types.Uid]perUserData{}, sessions: map[*Session]perSessionData{},
		clientMsg: make(chan *ClientComMessage, 8), meta: make(chan *ClientComMessage, 8), unreg: make(chan *ClientComMessage, 8),
		killTimer: time.NewTimer(time.Hour)}
	err := initTopicMe(t, &ClientComMessage{AsUser: owner.UserId(), sess: s, Sub: &MsgClientSub{Topic: "me"}})
	verifAssert(err == nil && len(t.perUser) == 1, "me-topic-loads-with-its-user")
	t.sessions[s] = perSessionData{uid: owner}
	s.subs[name] = &Subscription{broadcast: t.clientMsg, done: t.unreg, meta: t.meta, supd: t.supd}
	mode := []string{"", "JP", "JRWPAS", "N"}[verifChoose("mode", 4)]
	msg := &ClientComMessage{Id: "r1", AsUser: owner.UserId(), AuthLvl: int(auth.LevelAuth), Original: "me", RcptTo: name,
		Timestamp: types.TimeNow(), sess: s, init: true, MetaWhat: constMsgMetaSub,
		Set: &MsgClientSet{Id: "r1", Topic: "me", MsgSetQuery: MsgSetQuery{Sub: &MsgSetSub{User: other.UserId(), Mode: mode}}}}
	t.handleMeta(msg)
	_, in := t.perUser[other]
	verifAssert(!in && len(t.perUser) == 1, "me-topic-admits-only-its-own-user")
	verifAssert(verifStore.subs[verifSubKey(name, other)] == nil, "nobody-else-gets-a-subscription-to-a-me-topic")
	n := 0
	for _, r := range verifDrainSend(s) {
		if r != nil && r.Ctrl != nil && r.Ctrl.Id == "r1" {
			n++
		}
	}
	verifAssert(n >= 1, "request-answered")
	verifReach("end")
}
