//go:build verif

package main

import (
	"errors"
	"net"
	"net/rpc"
	"sync"
	"time"

	"github.com/tinode/chat/server/auth"
	rh "github.com/tinode/chat/server/ringhash"
	"github.com/tinode/chat/server/store/types"
)

// C17 (election part): local lemmas on the real Cluster.electLeader and one iteration of
// Cluster.run per event, from an arbitrary node state; the transport is replaced by a fake that
// answers every vote request at once with an arbitrary reply (grant/refuse with an arbitrary term,
// or an error standing for loss/timeout).

var verifVoteReplies []verifVoteReply

type verifVoteReply struct {
	lost   bool
	result bool
	term   int
}

var verifVoteIdx int

//verif:override (*github.com/tinode/chat/server.ClusterNode).callAsync
func verifCallAsync(n *ClusterNode, proc string, req, resp any, done chan *rpc.Call) *rpc.Call {
	r := verifVoteReplies[verifVoteIdx]
	verifVoteIdx++
	call := &rpc.Call{ServiceMethod: proc, Args: req, Reply: resp, Done: done}
	if r.lost {
		call.Error = errors.New("lost")
	} else {
		// What the caller observes when it inspects this call right after its reply was decoded and before the
		// next reply arrives: gob decodes INTO the struct it was given and does not transmit zero fields, so a
		// reply struct shared between calls keeps earlier non-zero values. With one struct per call (as the
		// pinned code has it) the snapshot is exactly the reply.
		vr := resp.(*ClusterVoteResponse)
		if r.result {
			vr.Result = true
		}
		if r.term != 0 {
			vr.Term = r.term
		}
		snap := *vr
		call.Reply = &snap
	}
	done <- call
	return call
}

// ---- native (replay) transport: a real net/rpc client per node over an in-memory pipe; the fake
// service hands out the scripted replies in arrival order, one at a time.
type VerifVoteSvc struct {
	mu        sync.Mutex
	next      int
	delivered int
}

func (s *VerifVoteSvc) Vote(req *ClusterVoteRequest, resp *ClusterVoteResponse) error {
	s.mu.Lock()
	ticket := s.next
	s.next++
	s.mu.Unlock()
	for {
		s.mu.Lock()
		turn := s.delivered == ticket
		s.mu.Unlock()
		if turn {
			break
		}
		time.Sleep(time.Millisecond)
	}
	defer func() {
		go func() {
			time.Sleep(3 * time.Millisecond)
			s.mu.Lock()
			s.delivered++
			s.mu.Unlock()
		}()
	}()
	r := verifVoteReplies[ticket]
	if r.lost {
		return errors.New("lost")
	}
	resp.Result, resp.Term = r.result, r.term
	return nil
}

func verifNativeEndpoints(c *Cluster) {
	svc := &VerifVoteSvc{}
	for _, n := range c.nodes {
		srv := rpc.NewServer()
		srv.RegisterName("Cluster", svc)
		a, b := net.Pipe()
		go srv.ServeConn(a)
		n.endpoint = rpc.NewClient(b)
		n.rpcDone = make(chan *rpc.Call, 8)
	}
}

func verifCluster(nOthers int) *Cluster {
	term := verifNondetInt("term")
	verifAssume(term >= 0 && term < 1<<30)
	leader := []string{"", "a", "b"}[verifChoose("leader", 3)]
	return verifClusterWith(nOthers, term, leader)
}

func verifClusterWith(nOthers int, term int, leader string) *Cluster {
	verifNewStore()
	verifInitGlobals()
	globals.hub.rehash = make(chan bool, 4)
	names := []string{"b", "c", "d", "e"}
	c := &Cluster{thisNodeName: "a", nodes: map[string]*ClusterNode{}}
	all := []string{"a"}
	for i := 0; i < nOthers; i++ {
		c.nodes[names[i]] = &ClusterNode{name: names[i], connected: true, msess: map[string]struct{}{}}
		all = append(all, names[i])
	}
	c.ring = rh.New(clusterHashReplicas, nil)
	c.ring.Add(all...)
	c.fo = &clusterFailover{
		activeNodes:        all,
		heartBeat:          2 * time.Second,
		voteTimeout:        3,
		nodeFailCountLimit: 3,
		healthCheck:        make(chan *ClusterHealth, 3),
		electionVote:       make(chan *ClusterVote, nOthers),
		done:               make(chan bool, 1),
	}
	c.fo.term = term
	c.fo.leader = leader
	globals.cluster = c
	return c
}

// A candidate becomes leader only with votes from a strict majority of ALL configured nodes.
func harnessC17Elect(nOthers int) {
	c := verifCluster(nOthers)
	term0 := c.fo.term
	verifVoteReplies, verifVoteIdx = nil, 0
	granted := 0
	for i := 0; i < nOthers; i++ {
		r := verifVoteReply{lost: verifNondetBool("lost"), result: verifNondetBool("granted")}
		t := verifNondetInt("replyTerm")
		verifAssume(t >= 0 && t < 1<<30)
		r.term = t
		verifVoteReplies = append(verifVoteReplies, r)
	}
	if !verifIsSymbolicEngine() {
		verifNativeEndpoints(c)
	}
	c.electLeader()
	// count the grants the candidate actually received before it stopped counting is not observable;
	// a sound over-approximation: grants among ALL replies
	for _, r := range verifVoteReplies {
		if !r.lost && r.result {
			granted++
		}
	}
	n := nOthers + 1
	verifAssert(c.fo.term == term0+1, "candidate-votes-for-itself-in-a-new-term")
	if c.fo.leader == "a" {
		verifAssert(2*(granted+1) > n, "leader-only-with-a-strict-majority-of-configured-nodes")
	}
	verifAssert(c.fo.term >= term0, "term-never-decreases")
	verifReach("end")
}

func Harness_C17_elect_3() { harnessC17Elect(2) }
func Harness_C17_elect_4() { harnessC17Elect(3) }
func Harness_C17_elect_5() { harnessC17Elect(4) }

// runOne processes exactly the queued events with one pass of the real run loop.
func verifRunOnce(c *Cluster) {
	if verifIsSymbolicEngine() {
		// the engine's select takes the ready cases in source order: queued events first, then done
		c.fo.done <- true
		c.run()
		return
	}
	// natively select picks at random among ready cases: let the loop drain the event queues, then stop it
	fin := make(chan struct{})
	var crashed any
	go func() {
		// a panic of the run loop is handed to the harness goroutine (in production it ends the process)
		defer func() {
			crashed = recover()
			close(fin)
		}()
		c.run()
	}()
	for len(c.fo.healthCheck) > 0 || len(c.fo.electionVote) > 0 {
		select {
		case <-fin:
			if crashed != nil {
				panic(crashed)
			}
			return
		default:
		}
		time.Sleep(time.Millisecond)
	}
	select {
	case c.fo.done <- true:
	case <-fin:
	}
	<-fin
	if crashed != nil {
		panic(crashed)
	}
}

// A node grants a vote iff the request's term is newer than its own, adopts that term, and therefore
// grants at most one vote per term; its term never decreases.
func Harness_C17_vote_step() {
	c := verifCluster(2)
	term0, leader0 := c.fo.term, c.fo.leader
	reqTerm := verifNondetInt("reqTerm")
	verifAssume(reqTerm >= 0 && reqTerm < 1<<30)
	resp := make(chan ClusterVoteResponse, 1)
	c.fo.electionVote <- &ClusterVote{req: &ClusterVoteRequest{Node: "b", Term: reqTerm}, resp: resp}
	verifRunOnce(c)
	r := <-resp
	verifAssert(r.Result == (reqTerm > term0), "vote-granted-iff-request-term-is-newer")
	verifAssert(c.fo.term >= term0, "term-never-decreases")
	if r.Result {
		verifAssert(c.fo.term == reqTerm && c.fo.leader == "", "granting-adopts-the-term-and-clears-the-leader")
		// a second candidate asking in the same term is refused
		resp2 := make(chan ClusterVoteResponse, 1)
		c.fo.electionVote <- &ClusterVote{req: &ClusterVoteRequest{Node: "c", Term: reqTerm}, resp: resp2}
		verifRunOnce(c)
		r2 := <-resp2
		verifAssert(!r2.Result, "at-most-one-vote-per-term")
	} else {
		verifAssert(c.fo.term == term0 && c.fo.leader == leader0, "refusing-changes-nothing")
	}
	verifAssert(r.Term == c.fo.term || r.Result, "reply-carries-the-nodes-term")
	verifReach("end")
}

// A health check from a stale term is ignored; otherwise the node adopts leader and term, and after
// two mismatching signatures the node list and ring.
func Harness_C17_health_step() {
	c := verifCluster(2)
	term0, leader0 := c.fo.term, c.fo.leader
	sig0 := c.ring.Signature()
	hTerm := verifNondetInt("healthTerm")
	verifAssume(hTerm >= 0 && hTerm < 1<<30)
	sameSig := verifNondetBool("sameSignature")
	// the leader's list of live nodes: with or without this node (a leader that missed this node's answers for a
	// while counts it as failed, yet its health checks keep arriving)
	nodes := [][]string{{"a", "b"}, {"b", "c"}, {"b"}}[verifChoose("leadersNodeList", 3)]
	h := &ClusterHealth{Leader: "b", Term: hTerm, Signature: sig0, Nodes: nodes}
	if !sameSig {
		h.Signature = "other-signature"
	}
	twice := verifNondetBool("twice")
	c.fo.healthCheck <- h
	if twice {
		c.fo.healthCheck <- h
	}
	verifRunOnce(c)
	if hTerm < term0 {
		verifAssert(c.fo.term == term0 && c.fo.leader == leader0 && c.ring.Signature() == sig0, "stale-leader-ignored")
	} else {
		verifAssert(c.fo.term == hTerm && c.fo.leader == "b", "accepted-health-check-adopts-leader-and-term")
		if !sameSig && twice {
			want := rh.New(clusterHashReplicas, nil)
			want.Add(nodes...)
			verifAssert(c.ring.Signature() == want.Signature(), "node-list-and-ring-adopted-from-the-leader")
		} else if sameSig {
			verifAssert(c.ring.Signature() == sig0, "ring-unchanged-when-signatures-agree")
		}
	}
	verifAssert(c.fo.term >= term0, "term-never-decreases")
	verifReach("end")
}

// A node that can reach no more than half of the configured nodes stops serving.
func Harness_C17_partitioned() {
	nOthers := 2 + verifChoose("others", 3)
	c := verifCluster(nOthers)
	k := verifChoose("active", nOthers+2)
	c.fo.activeNodes = make([]string, k)
	n := nOthers + 1
	verifAssert(c.isPartitioned() == (2*k <= n), "partitioned-iff-at-most-half-of-the-nodes-reachable")
	verifReach("end")
}

// The ring-signature gate on inter-node topic traffic: a request from a proxy node whose ring differs from the
// master's is rejected and reaches neither the hub nor a topic - on every request, not only on the first one
// for a (topic, node) pair.
func Harness_C17_topic_master_signature_gate() {
	c := verifCluster(2)
	hub := globals.hub
	sig := c.ring.Signature()
	match := verifNondetBool("signaturesMatch")
	reqSig := sig
	if !match {
		reqSig = "stale-ring-signature"
	}
	topic := "grpAAAAAAAAAAB"
	// the multiplexing session for (topic, node b) may exist already from earlier traffic
	if verifNondetBool("multiplexingSessionExists") {
		msess, _ := globals.sessionStore.NewSession(c.nodes["b"], topic+"-b")
		msess.proxiedTopic = topic
		c.nodes["b"].msess[topic+"-b"] = struct{}{}
	}
	cli := &ClientComMessage{Id: "r1", Original: topic, RcptTo: topic, AsUser: types.Uid(5).UserId(), AuthLvl: int(auth.LevelAuth),
		Timestamp: types.TimeNow(), Sub: &MsgClientSub{Id: "r1", Topic: topic}}
	req := &ClusterReq{Node: "b", Signature: reqSig, RcptTo: topic, ReqType: ProxyReqJoin, CliMsg: cli,
		Sess: &ClusterSess{Sid: "sid-remote", Uid: types.Uid(5), AuthLvl: auth.LevelAuth}}
	rejected := false
	err := c.TopicMaster(req, &rejected)
	verifAssert(err == nil, "topic-master-returns")
	verifAssert(rejected == !match, "mismatching-ring-signature-is-rejected-and-only-that")
	if !match {
		verifAssert(len(hub.join) == 0 && len(hub.routeCli) == 0 && len(hub.unreg) == 0 && len(hub.meta) == 0, "rejected-inter-node-request-reaches-nothing")
	} else {
		verifAssert(len(hub.join) == 1, "accepted-join-forwarded-to-the-hub")
	}
	verifReach("end")
}

// ---- leader's health checks and fail-over: after one round of Cluster.sendHealthChecks from arbitrary failure
// counters, whenever a node crossed the failure threshold (or came back) in this round the leader's list of
// active nodes is exactly itself plus the nodes below the threshold - so that isPartitioned and the ring see
// the failure. The order in which the nodes are visited must not matter (natively Go randomises it: the replay
// repeats the round 64 times).
func (s *VerifVoteSvc) Health(req *ClusterHealth, unused *bool) error { return nil }

//verif:override (*net/rpc.Client).Call
func verifRpcCall(cl *rpc.Client, serviceMethod string, args any, reply any) error { return nil }

func Harness_C17_health_round_failover() {
	const limit = 3
	names := []string{"b", "c", "d"}
	var count0 [3]int
	var reachable [3]bool
	for i := range names {
		count0[i] = verifChoose("failCount", limit+2)
		reachable[i] = verifNondetBool("reachable")
	}
	rounds := 1
	if !verifIsSymbolicEngine() {
		rounds = 64
	}
	for r := 0; r < rounds; r++ {
		c := verifClusterWith(3, 5, "a")
		c.fo.nodeFailCountLimit = limit
		if !verifIsSymbolicEngine() {
			verifNativeEndpoints(c)
		}
		crossed := false
		for i, nm := range names {
			n := c.nodes[nm]
			n.failCount = count0[i]
			n.connected = reachable[i]
			if !reachable[i] && count0[i]+1 == limit {
				crossed = true
			}
			if reachable[i] && count0[i] >= limit {
				crossed = true
			}
		}
		c.fo.activeNodes = []string{"stale"}
		c.sendHealthChecks()
		if crossed {
			want := map[string]bool{"a": true}
			for _, nm := range names {
				if c.nodes[nm].failCount < limit {
					want[nm] = true
				}
			}
			verifAssert(len(c.fo.activeNodes) == len(want), "failover-recomputes-the-active-nodes")
			for _, nm := range c.fo.activeNodes {
				verifAssert(want[nm], "active-nodes-are-the-nodes-below-the-failure-threshold")
			}
			verifAssert(len(globals.hub.rehash) >= 1, "failover-triggers-a-rehash")
			verifAssert(c.isPartitioned() == (2*len(want) <= 4), "partition-detected-from-the-fresh-list")
		}
		for i, nm := range names {
			n := c.nodes[nm]
			if reachable[i] {
				verifAssert(n.failCount == 0, "reachable-node-counter-reset")
			} else {
				verifAssert(n.failCount == count0[i]+1, "unreachable-node-counter-incremented")
			}
		}
	}
	verifReach("end")
}

// ---- histories: three arbitrary events in a row on one node - a vote request from b or c, an election this
// node itself starts (it votes for itself in the new term), a health check from a leader. A ghost record keeps
// every vote the node cast; whatever the history, no two votes of the same term go to different candidates.
// (A single step cannot see a vote remembered across events: the memory may live in any field.)
func Harness_C17_vote_history() {
	c := verifClusterWith(2, 5, "")
	type cast struct {
		term int
		for_ string
	}
	var votes []cast
	for step := 0; step < 3; step++ {
		term0 := c.fo.term
		switch verifChoose("event", 3) {
		case 0:
			node := []string{"b", "c"}[verifChoose("candidate", 2)]
			reqTerm := verifNondetInt("reqTerm")
			verifAssume(reqTerm >= 0 && reqTerm < 64)
			resp := make(chan ClusterVoteResponse, 1)
			c.fo.electionVote <- &ClusterVote{req: &ClusterVoteRequest{Node: node, Term: reqTerm}, resp: resp}
			verifRunOnce(c)
			r := <-resp
			if r.Result {
				votes = append(votes, cast{reqTerm, node})
			}
		case 1:
			verifVoteReplies, verifVoteIdx = nil, 0
			for i := 0; i < 2; i++ {
				verifVoteReplies = append(verifVoteReplies, verifVoteReply{lost: verifNondetBool("lost"), result: verifNondetBool("granted"), term: term0})
			}
			if !verifIsSymbolicEngine() {
				verifNativeEndpoints(c)
			}
			c.electLeader()
			votes = append(votes, cast{c.fo.term, "a"})
		case 2:
			hTerm := verifNondetInt("healthTerm")
			verifAssume(hTerm >= 0 && hTerm < 64)
			leader := []string{"b", "c"}[verifChoose("healthLeader", 2)]
			c.fo.healthCheck <- &ClusterHealth{Leader: leader, Term: hTerm, Signature: c.ring.Signature(), Nodes: []string{"a", "b", "c"}}
			verifRunOnce(c)
		}
		verifAssert(c.fo.term >= term0, "term-never-decreases")
	}
	for i := 0; i < len(votes); i++ {
		for j := i + 1; j < len(votes); j++ {
			verifAssert(votes[i].term != votes[j].term || votes[i].for_ == votes[j].for_, "at-most-one-vote-per-term-over-a-history")
		}
	}
	verifReach("end")
}
