//go:build verif

package main

import (
	"time"

	"github.com/tinode/chat/server/auth"
	"github.com/tinode/chat/server/store/types"
)

// C13 (online topic): every {get}/{set}/{del} that reaches a loaded group topic from an attached
// session is answered at least once with the request id and never panics.

func verifGetOpts(name string) *MsgGetOpts {
	if !verifNondetBool(name + "-present") {
		return nil
	}
	o := &MsgGetOpts{SinceId: verifNondetInt(name + "-since"), BeforeId: verifNondetInt(name + "-before"), Limit: verifNondetInt(name + "-limit")}
	switch verifChoose(name+"-user", 3) {
	case 1:
		o.User = types.Uid(8).UserId() // the former member
	case 2:
		o.User = "junk"
	}
	if verifNondetBool(name + "-ims") {
		ts := time.Unix(1800000000, 0).UTC()
		o.IfModifiedSince = &ts
	}
	return o
}

func Harness_C13_online_get() {
	fx := verifNewTopic(verifKindGrp, 2)
	t := fx.topic
	t.lastID = 5
	verifNotified = nil
	// a former member whose row was deleted in the past
	past := time.Unix(1600000000, 0).UTC()
	former := types.Uid(8)
	fx.store.subs[verifSubKey(t.name, former)] = &types.Subscription{User: former.String(), Topic: t.name,
		ModeWant: types.ModeCPublic, ModeGiven: types.ModeCPublic, DeletedAt: &past}
	fx.store.subs[verifSubKey(t.name, former)].UpdatedAt = past
	for _, u := range append(append([]types.Uid{}, fx.uids...), former) {
		fx.store.users[u] = &types.User{State: types.StateOK, Access: types.DefaultAccess{Auth: types.ModeCAuth}}
	}
	actor := fx.uids[verifChoose("actor", len(fx.uids))]
	sess := verifNewSession("sid-a", actor, auth.LevelAuth, 64)
	fx.attach(sess, actor, false)
	what := []string{"desc", "sub", "data", "del", "tags", "sub desc", "data del tags"}[verifChoose("what", 7)]
	q := MsgGetQuery{What: what}
	switch verifChoose("opts", 4) {
	case 0:
		q.Sub = verifGetOpts("sub")
	case 1:
		q.Data = verifGetOpts("data")
	case 2:
		q.Del = verifGetOpts("del")
	case 3:
		q.Desc = verifGetOpts("desc")
	}
	msg := &ClientComMessage{Id: "g1", AsUser: actor.UserId(), AuthLvl: int(auth.LevelAuth), Original: t.name, RcptTo: t.name,
		Timestamp: types.TimeNow(), sess: sess, init: true, Get: &MsgClientGet{Id: "g1", Topic: t.name, MsgGetQuery: q}}
	msg.MetaWhat = parseMsgClientMeta(what)
	t.handleMeta(msg)
	replies := verifDrainSend(sess)
	n := 0
	for _, r := range replies {
		if r == nil {
			continue
		}
		if (r.Ctrl != nil && r.Ctrl.Id == "g1") || (r.Meta != nil && r.Meta.Id == "g1") || r.Data != nil {
			n++
		}
	}
	verifAssert(n >= 1, "get-request-answered")
	verifReach("end")
}
