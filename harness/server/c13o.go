//go:build verif

package main

import (
	"time"

	"github.com/tinode/chat/server/auth"
	"github.com/tinode/chat/server/store/types"
)

// C13 (online topic): every {get}/{set}/{del} that reaches a loaded group topic from an attached
// session is answered at least once with the request id and never panics.

func verifGetOpts(name string) *MsgGetOpts {
	if !verifNondetBool(name + "-present") {
		return nil
	}
	o := &MsgGetOpts{SinceId: verifNondetInt(name + "-since"), BeforeId: verifNondetInt(name + "-before"), Limit: verifNondetInt(name + "-limit")}
	switch verifChoose(name+"-user", 3) {
	case 1:
		o.User = types.Uid(8).UserId() // the former member
	case 2:
		o.User = "junk"
	}
	if verifNondetBool(name + "-ims") {
		ts := time.Unix(1800000000, 0).UTC()
		o.IfModifiedSince = &ts
	}
	return o
}

func Harness_C13_online_get() {
	fx := verifNewTopic(verifKindGrp, 2)
	t := fx.topic
	t.lastID = 5
	verifNotified = nil
	// a former member whose row was deleted in the past
	past := time.Unix(1600000000, 0).UTC()
	former := types.Uid(8)
	fx.store.subs[verifSubKey(t.name, former)] = &types.Subscription{User: former.String(), Topic: t.name,
		ModeWant: types.ModeCPublic, ModeGiven: types.ModeCPublic, DeletedAt: &past}
	fx.store.subs[verifSubKey(t.name, former)].UpdatedAt = past
	for _, u := range append(append([]types.Uid{}, fx.uids...), former) {
		fx.store.users[u] = &types.User{State: types.StateOK, Access: types.DefaultAccess{Auth: types.ModeCAuth}}
	}
	actor := fx.uids[verifChoose("actor", len(fx.uids))]
	sess := verifNewSession("sid-a", actor, auth.LevelAuth, 64)
	fx.attach(sess, actor, false)
	what := []string{"desc", "sub", "data", "del", "tags", "sub desc", "data del tags"}[verifChoose("what", 7)]
	q := MsgGetQuery{What: what}
	switch verifChoose("opts", 4) {
	case 0:
		q.Sub = verifGetOpts("sub")
	case 1:
		q.Data = verifGetOpts("data")
	case 2:
		q.Del = verifGetOpts("del")
	case 3:
		q.Desc = verifGetOpts("desc")
	}
	msg := &ClientComMessage{Id: "g1", AsUser: actor.UserId(), AuthLvl: int(auth.LevelAuth), Original: t.name, RcptTo: t.name,
		Timestamp: types.TimeNow(), sess: sess, init: true, Get: &MsgClientGet{Id: "g1", Topic: t.name, MsgGetQuery: q}}
	msg.MetaWhat = parseMsgClientMeta(what)
	t.handleMeta(msg)
	replies := verifDrainSend(sess)
	n := 0
	for _, r := range replies {
		if r == nil {
			continue
		}
		if (r.Ctrl != nil && r.Ctrl.Id == "g1") || (r.Meta != nil && r.Meta.Id == "g1") || r.Data != nil {
			n++
		}
	}
	verifAssert(n >= 1, "get-request-answered")
	verifReach("end")
}

// A root session attached to a p2p topic acts on behalf of (extra.obo) either participant or a third
// user while addressing the topic by its p2pXXX name: every request kind must be handled without a
// panic and (except {note}) answered.
func Harness_C13_online_p2p_on_behalf() { harnessC13OnBehalf(verifKindP2P) }
func Harness_C13_online_grp_on_behalf() { harnessC13OnBehalf(verifKindGrp) }

func harnessC13OnBehalf(kind int) {
	fx := verifNewTopic(kind, 2)
	t := fx.topic
	t.lastID = 5
	verifNotified = nil
	for _, u := range append(append([]types.Uid{}, fx.uids...), verifStranger) {
		fx.store.users[u] = &types.User{State: types.StateOK, Access: types.DefaultAccess{Auth: types.ModeCAuth}}
	}
	sess := verifNewSession("sid-root", verifRootUid, auth.LevelRoot, 64)
	fx.attach(sess, fx.uids[0], false)
	actors := []types.Uid{fx.uids[0], fx.uids[1], verifStranger}
	actor := actors[verifChoose("actor", len(actors))]
	msg := &ClientComMessage{Id: "r1", AsUser: actor.UserId(), AuthLvl: int(auth.LevelRoot), Original: t.name, RcptTo: t.name,
		Timestamp: types.TimeNow(), sess: sess, init: true}
	wantReply := true
	switch verifChoose("kind", 6) {
	case 0:
		msg.Pub = &MsgClientPub{Id: "r1", Topic: t.name, Content: "x", NoEcho: verifNondetBool("noecho")}
		t.handlePubBroadcast(msg)
	case 1:
		what := []string{"desc", "sub", "data", "del", "tags", "cred"}[verifChoose("what", 6)]
		msg.Get = &MsgClientGet{Id: "r1", Topic: t.name, MsgGetQuery: MsgGetQuery{What: what}}
		msg.MetaWhat = parseMsgClientMeta(what)
		t.handleMeta(msg)
	case 2:
		set := &MsgClientSet{Id: "r1", Topic: t.name}
		switch verifChoose("setwhat", 4) {
		case 0:
			set.Desc = &MsgSetDesc{Private: "p"}
			msg.MetaWhat = constMsgMetaDesc
		case 1:
			set.Sub = &MsgSetSub{Mode: []string{"", "JRWPA", "N", "JRWPASDO"}[verifChoose("mode", 4)]}
			if verifNondetBool("setsub-other") {
				set.Sub.User = actors[verifChoose("target", len(actors))].UserId()
			}
			msg.MetaWhat = constMsgMetaSub
		case 2:
			set.Tags = []string{"tag1"}
			msg.MetaWhat = constMsgMetaTags
		case 3:
			set.Desc = &MsgSetDesc{DefaultAcs: &MsgDefaultAcsMode{Auth: "JRW", Anon: "N"}}
			msg.MetaWhat = constMsgMetaDesc
		}
		msg.Set = set
		t.handleMeta(msg)
	case 3:
		del := &MsgClientDel{Id: "r1", Topic: t.name}
		switch verifChoose("delwhat", 3) {
		case 0:
			del.What = "msg"
			del.DelSeq = []MsgDelRange{{LowId: 1, HiId: verifNondetInt("hi")}}
			del.Hard = verifNondetBool("hard")
			msg.MetaWhat = constMsgDelMsg
		case 1:
			del.What = "sub"
			del.User = actors[verifChoose("target", len(actors))].UserId()
			msg.MetaWhat = constMsgDelSub
		case 2:
			// the hub deletes the topic itself when the owner asks; only non-owners are forwarded here
			verifAssume(t.owner != actor)
			del.What = "topic"
			msg.MetaWhat = constMsgDelTopic
		}
		msg.Del = del
		t.handleMeta(msg)
	case 4:
		wantReply = false
		msg.Id = ""
		msg.Note = &MsgClientNote{Topic: t.name, What: []string{"kp", "read", "recv", "call", "junk"}[verifChoose("notewhat", 5)], SeqId: verifNondetInt("seq")}
		t.handleNoteBroadcast(msg)
	case 5:
		msg.Leave = &MsgClientLeave{Id: "r1", Topic: t.name, Unsub: verifNondetBool("unsub")}
		t.handleLeaveRequest(msg, msg.sess)
	}
	if wantReply {
		n := 0
		for _, r := range verifDrainSend(sess) {
			if r != nil && ((r.Ctrl != nil && r.Ctrl.Id == "r1") || (r.Meta != nil && r.Meta.Id == "r1")) {
				n++
			}
		}
		verifAssert(n >= 1, "request-on-behalf-answered")
	}
	verifReach("end")
}
