//go:build verif

package main

import (
	"github.com/tinode/chat/pbx"
)

// C13 (gRPC entry): pbCliDeserialize turns a decoded protobuf client message into the internal form. The harness
// builds messages the way the wire decoder can: every message-typed field is absent or present, a present
// message may be completely empty, repeated message fields hold non-nil elements. No shape may panic.

// JSON decoding of payload bytes and the protobuf runtime's enum naming are reflection-driven: stubs.
//
//verif:override github.com/tinode/chat/server.bytesToInterface
func verifBytesToInterface(in []byte) any {
	if len(in) == 0 {
		return nil
	}
	return string(in)
}

//verif:override (github.com/tinode/chat/pbx.AuthLevel).String
func verifAuthLevelString(x pbx.AuthLevel) string {
	switch x {
	case pbx.AuthLevel_ANON:
		return "ANON"
	case pbx.AuthLevel_AUTH:
		return "AUTH"
	case pbx.AuthLevel_ROOT:
		return "ROOT"
	}
	return "NONE"
}

func verifPbSetQuery(name string) *pbx.SetQuery {
	if !verifNondetBool(name + "-present") {
		return nil
	}
	q := &pbx.SetQuery{}
	if verifNondetBool(name + "-desc") {
		q.Desc = &pbx.SetDesc{}
		if verifNondetBool(name + "-desc-defacs") {
			q.Desc.DefaultAcs = &pbx.DefaultAcsMode{}
		}
		if verifNondetBool(name + "-desc-public") {
			q.Desc.Public = []byte(`"x"`)
		}
	}
	if verifNondetBool(name + "-sub") {
		q.Sub = &pbx.SetSub{}
		if verifNondetBool(name + "-sub-mode") {
			q.Sub.Mode = "JRW"
		}
	}
	if verifNondetBool(name + "-tags") {
		q.Tags = []string{}
		if verifNondetBool(name + "-tags-one") {
			q.Tags = []string{"a"}
		}
	}
	if verifNondetBool(name + "-cred") {
		q.Cred = &pbx.ClientCred{}
	}
	return q
}

func verifPbGetQuery(name string) *pbx.GetQuery {
	if !verifNondetBool(name + "-present") {
		return nil
	}
	q := &pbx.GetQuery{}
	if verifNondetBool(name + "-what") {
		q.What = "desc sub"
	}
	if verifNondetBool(name + "-desc") {
		q.Desc = &pbx.GetOpts{}
	}
	if verifNondetBool(name + "-sub") {
		q.Sub = &pbx.GetOpts{}
	}
	if verifNondetBool(name + "-data") {
		q.Data = &pbx.GetOpts{}
	}
	return q
}

func verifPbCreds(name string) []*pbx.ClientCred {
	switch verifChoose(name, 3) {
	case 1:
		return []*pbx.ClientCred{}
	case 2:
		return []*pbx.ClientCred{{}, {Method: "email"}}
	}
	return nil
}

func Harness_C13_grpc_deserialize() {
	pkt := &pbx.ClientMsg{}
	switch verifChoose("kind", 11) {
	case 0:
	case 1:
		pkt.Message = &pbx.ClientMsg_Hi{Hi: &pbx.ClientHi{}}
	case 2:
		acc := &pbx.ClientAcc{Cred: verifPbCreds("acc-cred")}
		if verifNondetBool("acc-desc") {
			acc.Desc = &pbx.SetDesc{}
		}
		pkt.Message = &pbx.ClientMsg_Acc{Acc: acc}
	case 3:
		pkt.Message = &pbx.ClientMsg_Login{Login: &pbx.ClientLogin{Cred: verifPbCreds("login-cred")}}
	case 4:
		pkt.Message = &pbx.ClientMsg_Sub{Sub: &pbx.ClientSub{SetQuery: verifPbSetQuery("sub-set"), GetQuery: verifPbGetQuery("sub-get")}}
	case 5:
		pkt.Message = &pbx.ClientMsg_Leave{Leave: &pbx.ClientLeave{}}
	case 6:
		pub := &pbx.ClientPub{}
		if verifNondetBool("pub-head") {
			pub.Head = map[string][]byte{"mime": []byte(`"text/x-drafty"`), "bad": []byte(`{`)}
		}
		if verifNondetBool("pub-content") {
			pub.Content = []byte(`{"txt":"a"}`)
		}
		pkt.Message = &pbx.ClientMsg_Pub{Pub: pub}
	case 7:
		pkt.Message = &pbx.ClientMsg_Get{Get: &pbx.ClientGet{Query: verifPbGetQuery("get")}}
	case 8:
		pkt.Message = &pbx.ClientMsg_Set{Set: &pbx.ClientSet{Query: verifPbSetQuery("set")}}
	case 9:
		del := &pbx.ClientDel{What: pbx.ClientDel_What(verifChoose("del-what", 7))}
		if verifNondetBool("del-seq") {
			del.DelSeq = []*pbx.SeqRange{{}, {Low: 1, Hi: 2}}
		}
		if verifNondetBool("del-cred") {
			del.Cred = &pbx.ClientCred{}
		}
		pkt.Message = &pbx.ClientMsg_Del{Del: del}
	case 10:
		pkt.Message = &pbx.ClientMsg_Note{Note: &pbx.ClientNote{What: pbx.InfoNote(verifChoose("note-what", 6)), Event: pbx.CallEvent(verifChoose("note-event", 8))}}
	}
	if verifNondetBool("extra") {
		pkt.Extra = &pbx.ClientExtra{}
	}
	msg := pbCliDeserialize(pkt)
	verifAssert(msg != nil, "deserialized")
	verifReach("end")
}
