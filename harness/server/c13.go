//go:build verif

package main

import (
	"time"

	"github.com/tinode/chat/server/auth"
	"github.com/tinode/chat/server/store"
	"github.com/tinode/chat/server/store/types"
)

// C13 — no client message can crash the server or go unanswered: one dispatch step with
// arbitrary short strings in the topic/what/scheme fields, followed by the hub-side consumer of
// whatever the session enqueued (run synchronously, as hub.run would).

func verifTopicString(name string) string {
	n := len(verifTopicPool)
	k := verifChoose(name, n+1)
	if k < n {
		return verifTopicPool[k]
	}
	return verifNondetString(name+"-any", 0, 4, "")
}

// verifTopicDrain plays the part of Topic.runLocal for everything queued to the topic.
func verifTopicDrain(t *Topic, h *Hub) int {
	if t.killTimer == nil {
		t.killTimer = time.NewTimer(time.Hour)
		t.callEstablishmentTimer = time.NewTimer(time.Second)
	}
	n := 0
	for {
		select {
		case msg := <-t.reg:
			t.registerSession(msg)
		case msg := <-t.unreg:
			t.unregisterSession(msg)
		case msg := <-t.clientMsg:
			t.handleClientMsg(msg)
		case msg := <-t.serverMsg:
			t.handleServerMsg(msg)
		case meta := <-t.meta:
			t.handleMeta(meta)
		case sd := <-t.exit:
			t.handleTopicTermination(sd)
			return n + 1
		default:
			return n
		}
		n++
		if n > 64 {
			verifAssert(false, "topic-actor-does-not-quiesce")
			return n
		}
	}
}

// verifHubDrain plays the part of Hub.run for everything the session enqueued.
func verifHubDrain(h *Hub) int {
	n := 0
	for {
		select {
		case join := <-h.join:
			n++
			t := &Topic{
				name: join.RcptTo, xoriginal: join.Original,
				sessions:  make(map[*Session]perSessionData),
				clientMsg: make(chan *ClientComMessage, 192), serverMsg: make(chan *ServerComMessage, 64),
				reg: make(chan *ClientComMessage, 256), unreg: make(chan *ClientComMessage, 256),
				meta: make(chan *ClientComMessage, 64), perUser: make(map[types.Uid]perUserData),
				exit: make(chan *shutDown, 1),
			}
			t.markPaused(true)
			h.topicPut(join.RcptTo, t)
			topicInit(t, join, h)
			verifDropSpawned()
			if h.topicGet(join.RcptTo) == t {
				verifTopicDrain(t, h)
			}
		case msg := <-h.routeCli:
			n++
			if dst := h.topicGet(msg.RcptTo); dst == nil && msg.Note == nil {
				msg.sess.queueOut(NoErrAcceptedExplicitTs(msg.Id, msg.RcptTo, types.TimeNow(), msg.Timestamp))
			}
		case msg := <-h.meta:
			n++
			if msg.Get != nil {
				if msg.MetaWhat == constMsgMetaDesc {
					replyOfflineTopicGetDesc(msg.sess, msg)
				} else {
					replyOfflineTopicGetSub(msg.sess, msg)
				}
			} else if msg.Set != nil {
				replyOfflineTopicSetSub(msg.sess, msg)
			}
		case unreg := <-h.unreg:
			n++
			reason := StopNone
			if unreg.del {
				reason = StopDeleted
			}
			if unreg.forUser.IsZero() {
				h.topicUnreg(unreg.sess, unreg.rcptTo, unreg.pkt, reason)
			}
		default:
			return n
		}
	}
}

func harnessC13Dispatch(kind int) { harnessC13DispatchV(kind, 0) }

func harnessC13DispatchV(kind int, variant int) {
	verifNewStore()
	verifInitGlobals()
	store.Devices = verifDevices{}
	verifAccCalls = nil
	outcome := &verifAuthOutcome{err: types.ErrFailed}
	verifInstallStoreObj(outcome)
	s := verifNewDispatchSession("sid-1")
	s.ver = minSupportedVersionValue
	if verifNondetBool("loggedIn") {
		s.uid, s.authLvl = 5, auth.LevelAuth
		if verifNondetBool("root") {
			s.authLvl = auth.LevelRoot
		}
	}
	verifStore.users[5] = &types.User{State: types.StateOK}
	var topic string
	if variant == 1 {
		topic = verifTopicPool[verifChoose("topic", len(verifTopicPool))]
	} else {
		topic = verifTopicString("topic")
	}
	msg := &ClientComMessage{}
	switch kind {
	case verifKPub:
		msg.Pub = &MsgClientPub{Id: "r1", Topic: topic, Content: "x"}
	case verifKSub:
		msg.Sub = &MsgClientSub{Id: "r1", Topic: topic}
		if variant == 1 {
			msg.Sub.Set = &MsgSetQuery{Sub: &MsgSetSub{Mode: verifNondetString("mode", 0, 2, "JON+x")}}
		}
	case verifKLeave:
		msg.Leave = &MsgClientLeave{Id: "r1", Topic: topic, Unsub: verifNondetBool("unsub")}
	case verifKGet:
		msg.Get = &MsgClientGet{Id: "r1", Topic: topic, MsgGetQuery: MsgGetQuery{What: []string{"desc", "sub", "data", "tags del cred", "junk", ""}[verifChoose("what", 6)]}}
	case verifKSet:
		msg.Set = &MsgClientSet{Id: "r1", Topic: topic}
		if verifNondetBool("setDesc") {
			msg.Set.Desc = &MsgSetDesc{}
		}
		if verifNondetBool("setSub") {
			msg.Set.Sub = &MsgSetSub{User: verifTopicString("setUser"), Mode: verifNondetString("mode", 0, 3, "JRWN+-x")}
		}
	case verifKDel:
		msg.Del = &MsgClientDel{Id: "r1", Topic: topic, What: []string{"msg", "topic", "sub", "cred", "junk"}[verifChoose("delWhat", 5)],
			Hard: verifNondetBool("hard"), User: verifTopicString("delUser")}
	case verifKAcc:
		msg.Acc = &MsgClientAcc{Id: "r1", User: []string{"new", "", "usrAAAAAAAAAAE"}[verifChoose("accUser", 3)],
			TmpScheme: []string{"", "code", "zzz"}[verifChoose("tmpScheme", 3)], TmpSecret: []byte("1234")}
	case verifKNote:
		msg.Note = &MsgClientNote{Topic: topic, What: []string{"read", "recv", "kp", "call", "data", "junk"}[verifChoose("noteWhat", 6)],
			SeqId: verifNondetInt("noteSeq"), Event: []string{"", "ringing", "accept", "hang-up", "offer"}[verifChoose("event", 5)]}
	case verifKLogin:
		msg.Login = &MsgClientLogin{Id: "r1", Scheme: []string{"basic", "reset", "zzz", ""}[verifChoose("scheme", 4)],
			Secret: []byte(verifNondetString("secret", 0, 4, "a:"))}
	case verifKHi:
		msg.Hi = &MsgClientHi{Id: "r1", Version: verifNondetString("version", 0, 3, "01.v"), DeviceID: []string{"", "dev1", types.NullValue}[verifChoose("dev", 3)]}
	}
	s.dispatch(msg)
	verifHubDrain(globals.hub)
	replies := verifDrainSend(s)
	if kind != verifKNote {
		verifAssert(len(replies) >= 1, "request-answered")
		for _, r := range replies {
			if r != nil && r.Ctrl != nil && r.Ctrl.Id != "" {
				verifAssert(r.Ctrl.Id == "r1", "reply-echoes-request-id")
			}
		}
	}
	verifReach("end")
}

func Harness_C13_dispatch_pub()   { harnessC13Dispatch(verifKPub) }
func Harness_C13_dispatch_sub()   { harnessC13Dispatch(verifKSub) }
func Harness_C13_dispatch_sub_mode() { harnessC13DispatchV(verifKSub, 1) }
func Harness_C13_dispatch_leave() { harnessC13Dispatch(verifKLeave) }
func Harness_C13_dispatch_get()   { harnessC13Dispatch(verifKGet) }
func Harness_C13_dispatch_set()   { harnessC13Dispatch(verifKSet) }
func Harness_C13_dispatch_del()   { harnessC13Dispatch(verifKDel) }
func Harness_C13_dispatch_acc()   { harnessC13Dispatch(verifKAcc) }
func Harness_C13_dispatch_note()  { harnessC13Dispatch(verifKNote) }
func Harness_C13_dispatch_login() { harnessC13Dispatch(verifKLogin) }
func Harness_C13_dispatch_hi()    { harnessC13Dispatch(verifKHi) }

// Topic-name helpers on arbitrary names.
func Harness_C13_topic_names() {
	name := verifNondetString("name", 0, 5, "")
	// every place that classifies a client-supplied name must tolerate any string
	s := verifNewDispatchSession("sid-1")
	s.ver, s.uid, s.authLvl = minSupportedVersionValue, 5, auth.LevelAuth
	msg := &ClientComMessage{Original: name, AsUser: s.uid.UserId(), Id: "x"}
	rcpt, resp := s.expandTopicName(msg)
	if resp == nil {
		verifAssert(rcpt != "" || name == "", "expanded-name")
	}
	verifReach("end")
}

// {leave} from a session that IS attached (to its 'me', its 'fnd' and a group topic): the request is either
// answered by the session itself or handed to the topic, and the session keeps an in-flight slot exactly for a
// request it handed over - a slot leaked by a request the session answered itself would block the session's
// next {sub}/{leave} for ever (no reply to anything that follows).
func Harness_C13_dispatch_leave_attached() {
	verifNewStore()
	verifInitGlobals()
	store.Devices = verifDevices{}
	verifInstallStoreObj(&verifAuthOutcome{err: types.ErrFailed})
	s := verifNewDispatchSession("sid-1")
	s.ver, s.uid, s.authLvl = minSupportedVersionValue, 5, auth.LevelAuth
	mk := func(name string) *Topic {
		t := &Topic{name: name, clientMsg: make(chan *ClientComMessage, 8), meta: make(chan *ClientComMessage, 8),
			unreg: make(chan *ClientComMessage, 8), supd: make(chan *sessionUpdate, 8)}
		s.subs[name] = &Subscription{broadcast: t.clientMsg, done: t.unreg, meta: t.meta, supd: t.supd}
		return t
	}
	topics := []*Topic{mk(s.uid.UserId()), mk(s.uid.FndName()), mk("grpAAAAAAAAAAB")}
	addressed := []string{"me", "fnd", "grpAAAAAAAAAAB"}[verifChoose("topic", 3)]
	msg := &ClientComMessage{Leave: &MsgClientLeave{Id: "r1", Topic: addressed, Unsub: verifNondetBool("unsub")}}
	s.dispatch(msg)
	forwarded := 0
	for _, t := range topics {
		forwarded += len(t.unreg)
	}
	replies := verifDrainSend(s)
	verifAssert(len(replies)+forwarded >= 1, "request-answered-or-handed-to-the-topic")
	verifAssert(len(s.inflightReqs.sem) == forwarded, "in-flight-slot-kept-exactly-for-requests-handed-over")
	verifReach("end")
}
