//go:build verif

package main

import (
	"time"
	"github.com/tinode/chat/server/auth"
	"github.com/tinode/chat/server/store/types"
)

// One publish step of the topic actor from an arbitrary state. Shared by C01 (numbering),
// C02 (fan-out) and C03 (acceptance).

type verifPubCfg struct {
	kind     int
	nUsers   int
	faults   bool // a single store fault at any position
	chanUser bool // last user may be a channel reader (chn kind only)
	root     bool // publisher may be a root session acting on behalf of the author
}

type verifPubWorld struct {
	fx        *verifFixture
	cfg       verifPubCfg
	author    types.Uid
	authorIn  bool // author has a perUser entry
	root      bool
	pubSess   *Session
	others    []*Session // one extra session per user (index = user), may be unattached
	attached  []bool
	chanSub   []bool
	noEcho    bool
	headKind  int
	head      map[string]any
	content   any
	oldLast   int
	oldMsgs   int
	oldMarks  verifMarks
	expectAcc bool
	msg       *ClientComMessage
}


func verifPubSetup(cfg verifPubCfg) *verifPubWorld {
	w := &verifPubWorld{cfg: cfg}
	fx := verifNewTopic(cfg.kind, cfg.nUsers)
	w.fx = fx
	t := fx.topic
	t.lastID = verifSeq("lastID")
	fx.store.topics[t.name].SeqId = t.lastID
	// topic status bits
	if verifNondetBool("paused") {
		t.status |= topicStatusPaused
	}
	if verifNondetBool("markedDeleted") {
		t.status |= topicStatusMarkedDeleted
	}
	if verifNondetBool("readOnly") {
		t.status |= topicStatusReadOnly
	}
	for i, u := range fx.uids {
		pud := t.perUser[u]
		pud.modeWant, pud.modeGiven = verifMode("want"), verifMode("given")
		if cfg.kind == verifKindP2P {
			// a p2p participant who unsubscribed stays in the live table, marked removed, modes retained
			pud.deleted = verifNondetBool("removed")
		}
		if cfg.kind == verifKindChn && cfg.chanUser && i == cfg.nUsers-1 {
			pud.isChan = verifNondetBool("isChanReader")
			if pud.isChan {
				pud.modeGiven = types.ModeCChnReader // a channel reader's grant is immutable
			}
		}
		pud.readID, pud.recvID = verifSeq("read"), verifSeq("recv")
		verifAssume(pud.readID <= pud.recvID && pud.recvID <= t.lastID)
		t.perUser[u] = pud
		sub := fx.store.subs[verifSubKey(t.name, u)]
		sub.ReadSeqId, sub.RecvSeqId = pud.readID, pud.recvID
		sub.ModeWant, sub.ModeGiven = pud.modeWant, pud.modeGiven
	}
	// author
	na := cfg.nUsers
	if cfg.root || cfg.kind == verifKindSys {
		na++ // + a stranger
	}
	ai := verifChoose("author", na)
	if ai < cfg.nUsers {
		w.author = fx.uids[ai]
		w.authorIn = true
	} else {
		w.author = verifStranger
	}
	w.root = cfg.root && verifNondetBool("viaRoot")
	if !w.root && cfg.kind != verifKindSys {
		// an ordinary session is attached only on behalf of a current, non-removed subscriber
		verifAssume(w.authorIn && !t.perUser[w.author].deleted)
	}
	suid, lvl := w.author, auth.LevelAuth
	if w.root {
		suid, lvl = verifRootUid, auth.LevelRoot
	}
	w.pubSess = verifNewSession("sid-pub", suid, lvl, 16)
	if cfg.kind != verifKindSys {
		t.sessions[w.pubSess] = perSessionData{uid: suid, isChanSub: t.perUser[suid].isChan}
		if pud, ok := t.perUser[suid]; ok {
			pud.online++
			t.perUser[suid] = pud
		}
	}
	// one more session per user
	for i, u := range fx.uids {
		s := verifNewSession("sid-u"+string(rune('0'+i)), u, auth.LevelAuth, 16)
		if cfg.kind == verifKindP2P && i == 1 && verifNondetBool("attachedViaRoot") {
			// a root session attached on behalf of the user: the session's own user is not the recipient
			s = verifNewSession("sid-u"+string(rune('0'+i)), verifRootUid, auth.LevelRoot, 16)
		}
		att := verifNondetBool("attached")
		pud := t.perUser[u]
		if pud.deleted {
			att = false // removed users have no attached sessions (evictUser detaches them)
		}
		if att {
			fx.attach(s, u, pud.isChan)
		}
		w.others = append(w.others, s)
		w.attached = append(w.attached, att)
		w.chanSub = append(w.chanSub, att && pud.isChan)
	}
	// sessions that said {hi bkg=true} and were not promoted yet are attached like any other and get their copies
	if verifNondetBool("allSessionsInBackground") {
		w.pubSess.background = true
		for _, s := range w.others {
			s.background = true
		}
	}
	w.noEcho = verifNondetBool("noEcho")
	w.headKind = verifChoose("head", 3)
	switch w.headKind {
	case 1:
		w.head = map[string]any{"sender": "usrFORGED"}
	case 2:
		w.head = map[string]any{"mime": "text/x-drafty", "sender": "usrFORGED"}
	}
	w.content = "content-object"
	if cfg.faults {
		fx.store.failAt = verifChoose("failAt", 4) - 1
	}
	w.oldLast = t.lastID
	w.oldMsgs = len(fx.store.msgs)
	w.oldMarks = fx.snapshotMarks()

	orig := t.xoriginal
	if w.authorIn {
		orig = t.original(w.author)
	}
	badAddr := false
	if (cfg.kind == verifKindChn || cfg.kind == verifKindGrp) && verifNondetBool("addressedByChannelName") {
		// a regular subscriber may address the channel-enabled group by its channel spelling:
		// expandTopicName routes chnX to the grpX subscription. A plain group has no channel spelling:
		// a publish addressed that way must be refused (recipients would get a topic name they do not know).
		orig = types.GrpToChn(t.name)
		badAddr = cfg.kind == verifKindGrp
	}
	w.msg = &ClientComMessage{
		Pub:       &MsgClientPub{Id: "req-1", Topic: orig, NoEcho: w.noEcho, Head: w.head, Content: w.content},
		Id:        "req-1",
		AsUser:    w.author.UserId(),
		AuthLvl:   int(lvl),
		Original:  orig,
		RcptTo:    t.name,
		Timestamp: types.TimeNow(),
		sess:      w.pubSess,
		init:      true,
	}
	// the property's acceptance condition
	apud := t.perUser[w.author]
	inactive := t.status&(topicStatusPaused|topicStatusMarkedDeleted) != 0
	readOnly := t.status&topicStatusReadOnly != 0
	// "the author is currently subscribed with write permission": a removed participant is not subscribed
	writer := w.authorIn && !apud.deleted && (apud.modeWant&apud.modeGiven).IsWriter()
	w.expectAcc = !inactive && !readOnly && (cfg.kind == verifKindSys || writer) && !badAddr
	return w
}

type verifPubOutcome struct {
	replies  []*ServerComMessage // to the publishing session
	accepted bool
	ackSeq   int
	data     [][]*ServerComMessage // per other session
	hub      []*ServerComMessage
	pushes   []*UserCacheReq
}

func (w *verifPubWorld) collect() verifPubOutcome {
	var o verifPubOutcome
	o.replies = verifDrainSend(w.pubSess)
	for _, r := range o.replies {
		if r != nil && r.Ctrl != nil && r.Ctrl.Code == 202 {
			o.accepted = true
			if p, ok := r.Ctrl.Params.(map[string]any); ok {
				if s, ok := p["seq"].(int); ok {
					o.ackSeq = s
				}
			}
		}
	}
	for _, s := range w.others {
		o.data = append(o.data, verifDrainSend(s))
	}
	o.hub = verifDrainHub(w.fx.hub)
	o.pushes = verifDrainUsersUpdate()
	return o
}

// ---- C03: acceptance iff permitted; rejection has no effect at all
func harnessC03(cfg verifPubCfg) {
	w := verifPubSetup(cfg)
	t := w.fx.topic
	t.handlePubBroadcast(w.msg)
	o := w.collect()
	faulted := w.fx.store.failed
	if !faulted {
		verifAssert(o.accepted == w.expectAcc, "accepted-iff-permitted")
	} else {
		verifAssert(!o.accepted || w.expectAcc, "accepted-only-if-permitted")
	}
	nCtrl, nErr := 0, 0
	for _, r := range o.replies {
		if r != nil && r.Ctrl != nil {
			nCtrl++
			if r.Ctrl.Code >= 300 {
				nErr++
			}
			verifAssert(r.Ctrl.Id == "req-1", "reply-echoes-id")
		}
	}
	if !o.accepted {
		verifAssert(nErr == 1 && nCtrl == 1, "rejected-gets-exactly-one-error-reply")
		verifAssert(t.lastID == w.oldLast, "rejected-consumes-no-id")
		if !faulted {
			verifAssert(len(w.fx.store.calls) == 0, "rejected-touches-no-store")
		}
		verifAssert(len(w.fx.store.msgs) == w.oldMsgs, "rejected-stores-nothing")
		for i := range w.others {
			verifAssert(len(o.data[i]) == 0, "rejected-reaches-nobody")
		}
		verifAssert(len(o.hub) == 0, "rejected-no-presence")
		verifAssert(len(o.pushes) == 0, "rejected-no-push-or-unread-update")
		m := w.fx.snapshotMarks()
		for _, u := range w.fx.uids {
			verifAssert(m.read[u] == w.oldMarks.read[u] && m.recv[u] == w.oldMarks.recv[u], "rejected-moves-no-marks")
		}
	}
	verifReach("end")
}

func Harness_C03_pub_grp()  { harnessC03(verifPubCfg{kind: verifKindGrp, nUsers: 2}) }
func Harness_C03_pub_p2p()  { harnessC03(verifPubCfg{kind: verifKindP2P, nUsers: 2}) }
func Harness_C03_pub_sys()  { harnessC03(verifPubCfg{kind: verifKindSys, nUsers: 1}) }
func Harness_C03_pub_grp_fault() { harnessC03(verifPubCfg{kind: verifKindGrp, nUsers: 2, faults: true}) }
func Harness_C03_pub_grp_root()  { harnessC03(verifPubCfg{kind: verifKindGrp, nUsers: 2, root: true}) }
func Harness_C03_pub_p2p_root()  { harnessC03(verifPubCfg{kind: verifKindP2P, nUsers: 2, root: true}) }
func Harness_C03_pub_chn3() { harnessC03(verifPubCfg{kind: verifKindChn, nUsers: 3, chanUser: true}) }

// ---- C02: an accepted publish reaches exactly the attached readers, once, unaltered
func (w *verifPubWorld) checkCopy(m *ServerComMessage, uid types.Uid, isChanSub bool, ackSeq int) {
	t := w.fx.topic
	verifAssert(m.Data != nil, "copy-is-data")
	verifAssert(m.Data.Content == w.content, "content-unaltered")
	verifAssert(m.Data.SeqId == ackSeq, "copy-carries-acked-seq")
	if isChanSub {
		verifAssert(m.Data.From == "", "author-withheld-from-channel-readers")
		verifAssert(m.Data.Topic == types.GrpToChn(t.name), "channel-spelling-for-channel-readers")
	} else {
		verifAssert(m.Data.From == w.author.UserId(), "true-author")
		if t.cat == types.TopicCatP2P {
			verifAssert(m.Data.Topic == t.p2pOtherUser(uid).UserId(), "p2p-topic-is-peer-id")
		} else {
			verifAssert(m.Data.Topic == t.xoriginal, "topic-name-as-recipient-addresses-it")
		}
	}
	// headers: only the server-controlled sender header may differ
	snd, hasSender := m.Data.Head["sender"]
	if w.root {
		verifAssert(hasSender && snd == verifRootUid.UserId(), "sender-header-is-servers-own")
	} else {
		verifAssert(!hasSender, "forged-sender-header-removed")
	}
	if w.headKind == 2 {
		verifAssert(m.Data.Head["mime"] == "text/x-drafty", "other-headers-unaltered")
	}
}

func harnessC02(cfg verifPubCfg) {
	w := verifPubSetup(cfg)
	t := w.fx.topic
	verifAssume(w.expectAcc)
	t.handlePubBroadcast(w.msg)
	o := w.collect()
	verifAssert(o.accepted, "accepted")
	for i, u := range w.fx.uids {
		pud := t.perUser[u]
		reader := (pud.modeWant & pud.modeGiven).IsReader()
		expect := w.attached[i] && (reader || w.chanSub[i])
		n := 0
		for _, m := range o.data[i] {
			if m != nil && m.Data != nil {
				n++
				w.checkCopy(m, u, w.chanSub[i], o.ackSeq)
			}
		}
		if expect {
			verifAssert(n == 1, "attached-reader-gets-exactly-one-copy")
		} else {
			verifAssert(n == 0, "non-reader-or-detached-gets-none")
		}
	}
	// the publishing session: one copy unless no-echo, if its user may read
	suid := w.pubSess.uid
	spud := t.perUser[suid]
	sreader := (spud.modeWant & spud.modeGiven).IsReader()
	echo := 0
	for _, m := range o.replies {
		if m != nil && m.Data != nil {
			echo++
			w.checkCopy(m, suid, t.perUser[suid].isChan, o.ackSeq)
		}
	}
	if !w.noEcho && sreader && t.cat != types.TopicCatSys {
		verifAssert(echo == 1, "publisher-gets-echo")
	} else {
		verifAssert(echo == 0, "no-echo-respected")
	}
	// the author's own marks jump to the message it published - whoever's session carried the request - in the
	// live topic and, for an author who can read, in the store as well (C09: a mark moves when its user publishes)
	if w.authorIn && t.cat != types.TopicCatSys {
		apud := t.perUser[w.author]
		verifAssert(apud.readID == o.ackSeq && apud.recvID == o.ackSeq, "authors-marks-move-to-the-published-message")
		if (apud.modeWant & apud.modeGiven).IsReader() {
			row := w.fx.store.subs[verifSubKey(t.name, w.author)]
			verifAssert(row != nil && row.ReadSeqId == apud.readID && row.RecvSeqId == apud.recvID, "authors-stored-marks-equal-the-live-ones")
		}
	}
	// push receipt: exactly the subscribers with read and presence, never removed users or channel readers
	nPush := 0
	for _, p := range o.pushes {
		if p.PushRcpt == nil {
			continue
		}
		nPush++
		for _, u := range w.fx.uids {
			pud := t.perUser[u]
			mode := pud.modeWant & pud.modeGiven
			want := mode.IsReader() && mode.IsPresencer() && !pud.deleted && !pud.isChan
			_, got := p.PushRcpt.To[u]
			verifAssert(got == want, "push-addressed-exactly-to-read-and-presence-subscribers")
		}
		_, strangerGot := p.PushRcpt.To[verifStranger]
		verifAssert(!strangerGot, "push-never-to-non-subscribers")
		verifAssert((p.PushRcpt.Channel != "") == t.isChan, "channel-address-iff-channel")
		if t.isChan {
			verifAssert(p.PushRcpt.Channel == types.GrpToChn(t.name), "channel-address-spelling")
		}
		verifAssert(p.PushRcpt.Payload.SeqId == o.ackSeq && p.PushRcpt.Payload.Content == w.content, "push-payload")
	}
	verifAssert(nPush <= 1, "at-most-one-push")
	// somebody to notify - a subscriber with read and presence, or the channel's readers behind the broadcast
	// address - means a push is issued
	anybody := t.isChan
	for _, u := range w.fx.uids {
		pud := t.perUser[u]
		mode := pud.modeWant & pud.modeGiven
		if mode.IsReader() && mode.IsPresencer() && !pud.deleted && !pud.isChan {
			anybody = true
		}
	}
	if anybody && t.cat != types.TopicCatSys {
		verifAssert(nPush == 1, "push-issued-when-there-is-somebody-to-notify")
	}
	verifReach("end")
}

func Harness_C02_fanout_grp() { harnessC02(verifPubCfg{kind: verifKindGrp, nUsers: 2}) }
func Harness_C02_fanout_p2p() { harnessC02(verifPubCfg{kind: verifKindP2P, nUsers: 2}) }
func Harness_C02_fanout_chn() { harnessC02(verifPubCfg{kind: verifKindChn, nUsers: 2, chanUser: true}) }
func Harness_C02_fanout_chn3() { harnessC02(verifPubCfg{kind: verifKindChn, nUsers: 3, chanUser: true}) }
func Harness_C02_fanout_grp_root() { harnessC02(verifPubCfg{kind: verifKindGrp, nUsers: 2, root: true}) }
func Harness_C02_fanout_sys() { harnessC02(verifPubCfg{kind: verifKindSys, nUsers: 1}) }

// ---- C01: numbering across two publishes with a single store fault anywhere
func harnessC01(cfg verifPubCfg) {
	w := verifPubSetup(cfg)
	t := w.fx.topic
	st := w.fx.store
	if cfg.faults {
		st.failAt = verifChoose("failAt2", 8) - 1 // any of the store writes of the two publishes, or none
	}
	n0 := t.lastID
	t.handlePubBroadcast(w.msg)
	o1 := w.collect()
	if o1.accepted {
		verifAssert(o1.ackSeq == n0+1, "first-ack-is-next-number")
		verifAssert(t.lastID == n0+1, "counter-advanced-by-one")
	} else {
		verifAssert(t.lastID == n0, "failed-publish-consumes-no-number")
	}
	for i := range w.others {
		for _, m := range o1.data[i] {
			if m != nil && m.Data != nil {
				verifAssert(o1.accepted && m.Data.SeqId == o1.ackSeq, "recipients-see-acked-number")
			}
		}
	}
	// second publish by the same session
	msg2 := *w.msg
	pub2 := *w.msg.Pub
	pub2.Id, msg2.Id = "req-2", "req-2"
	pub2.Head = nil
	msg2.Pub = &pub2
	n1 := t.lastID
	t.handlePubBroadcast(&msg2)
	o2 := w.collect()
	if o2.accepted {
		verifAssert(o2.ackSeq == n1+1 && t.lastID == n1+1, "second-ack-is-next-number")
		if o1.accepted {
			verifAssert(o2.ackSeq == o1.ackSeq+1, "consecutive-numbers")
		}
	} else {
		verifAssert(t.lastID == n1, "failed-publish-consumes-no-number")
	}
	// stored rows: one per accepted publish, numbered as acknowledged, no number twice
	rows := st.msgs[w.oldMsgs:]
	for i := range rows {
		verifAssert(rows[i].Topic == t.name, "row-in-this-topic")
		for j := range rows {
			if i != j {
				verifAssert(rows[i].SeqId != rows[j].SeqId, "no-number-stored-twice")
			}
		}
	}
	if o1.accepted {
		found := false
		for i := range rows {
			if rows[i].SeqId == o1.ackSeq {
				found = true
			}
		}
		verifAssert(found, "acked-message-is-stored-under-its-number")
	}
	if o2.accepted {
		found := false
		for i := range rows {
			if rows[i].SeqId == o2.ackSeq {
				found = true
			}
		}
		verifAssert(found, "acked-message-is-stored-under-its-number")
	}
	// what a reload would restore (the stored topic row) is never below anything shown to a client
	stored := st.topics[t.name].SeqId
	verifAssert(stored >= t.lastID, "stored-high-water-mark-covers-every-number-shown")
	for i := range rows {
		verifAssert(stored >= rows[i].SeqId, "stored-high-water-mark-covers-every-row")
	}
	verifReach("end")
}

func Harness_C01_seq_grp1_fault() { harnessC01(verifPubCfg{kind: verifKindGrp, nUsers: 1, faults: true}) }
func Harness_C01_seq_grp()       { harnessC01(verifPubCfg{kind: verifKindGrp, nUsers: 2}) }
func Harness_C01_seq_grp_fault() { harnessC01(verifPubCfg{kind: verifKindGrp, nUsers: 2, faults: true}) }
func Harness_C01_seq_p2p_fault() { harnessC01(verifPubCfg{kind: verifKindP2P, nUsers: 2, faults: true}) }

// ---- C01: the number acknowledged to the publisher is the number a later description query shows, and the
// publisher's own marks have jumped to it (C09: "a mark moves when its user publishes"). Lean world: only the
// author's modes, marks and the topic counter are symbolic.
func harnessC01Desc(kind int) {
	fx := verifNewTopic(kind, 2)
	t := fx.topic
	t.lastID = verifSeq("lastID")
	author := fx.uids[1]
	pud := t.perUser[author]
	// only the R and W bits matter here (the description renders the modes as text, which forks per symbolic bit)
	rw := types.ModeRead | types.ModeWrite
	pud.modeWant = types.ModeCPublic&^rw | verifMode("want")&rw
	pud.modeGiven = types.ModeCPublic&^rw | verifMode("given")&rw
	if kind == verifKindP2P {
		pud.modeWant, pud.modeGiven = pud.modeWant&types.ModeCP2P|types.ModeApprove, pud.modeGiven&types.ModeCP2P|types.ModeApprove
	}
	pud.readID, pud.recvID = verifSeq("read"), verifSeq("recv")
	verifAssume(pud.readID <= pud.recvID && pud.recvID <= t.lastID)
	t.perUser[author] = pud
	sub := fx.store.subs[verifSubKey(t.name, author)]
	sub.ReadSeqId, sub.RecvSeqId, sub.ModeWant, sub.ModeGiven = pud.readID, pud.recvID, pud.modeWant, pud.modeGiven
	fx.store.topics[t.name].SeqId = t.lastID
	for _, u := range fx.uids {
		fx.store.users[u] = &types.User{State: types.StateOK, Access: types.DefaultAccess{Auth: types.ModeCAuth}}
	}
	sess := verifNewSession("sid-a", author, auth.LevelAuth, 32)
	fx.attach(sess, author, false)
	name := t.original(author)
	pub := &ClientComMessage{Id: "p1", AsUser: author.UserId(), AuthLvl: int(auth.LevelAuth), Original: name, RcptTo: t.name,
		Timestamp: types.TimeNow(), sess: sess, init: true, Pub: &MsgClientPub{Id: "p1", Topic: name, Content: "x"}}
	t.handlePubBroadcast(pub)
	ack := 0
	for _, r := range verifDrainSend(sess) {
		if r != nil && r.Ctrl != nil && r.Ctrl.Code == 202 {
			if p, ok := r.Ctrl.Params.(map[string]any); ok {
				ack, _ = p["seq"].(int)
			}
		}
	}
	writer := (pud.modeWant & pud.modeGiven).IsWriter()
	verifAssert((ack != 0) == writer, "accepted-iff-writer")
	get := &ClientComMessage{Id: "g1", AsUser: author.UserId(), AuthLvl: int(auth.LevelAuth), Original: name, RcptTo: t.name,
		Timestamp: types.TimeNow(), sess: sess, init: true, MetaWhat: constMsgMetaDesc,
		Get: &MsgClientGet{Id: "g1", Topic: name, MsgGetQuery: MsgGetQuery{What: "desc"}}}
	// the client may say what it already has: "if modified since" before or after the topic's last metadata
	// change - an accepted message does not count as one, yet its number must show
	t.updated = time.Unix(1700000000, 0).UTC()
	switch verifChoose("ifModifiedSince", 3) {
	case 1:
		ims := t.updated.Add(-time.Hour)
		get.Get.Desc = &MsgGetOpts{IfModifiedSince: &ims}
	case 2:
		ims := t.updated.Add(time.Hour)
		get.Get.Desc = &MsgGetOpts{IfModifiedSince: &ims}
	}
	t.handleMeta(get)
	reader := (pud.modeWant & pud.modeGiven).IsReader()
	found := false
	for _, r := range verifDrainSend(sess) {
		if r == nil || r.Meta == nil || r.Meta.Desc == nil {
			continue
		}
		found = true
		d := r.Meta.Desc
		switch {
		case reader && ack != 0:
			verifAssert(d.SeqId == ack, "description-shows-the-acknowledged-number")
			verifAssert(d.ReadSeqId == ack && d.RecvSeqId == ack, "publishers-marks-jump-to-its-own-message")
		case reader:
			verifAssert(d.SeqId == t.lastID && d.ReadSeqId == pud.readID && d.RecvSeqId == pud.recvID, "description-unchanged-after-refused-publish")
		default:
			verifAssert(d.SeqId == 0 && d.ReadSeqId == 0 && d.RecvSeqId == 0, "counters-hidden-without-read-permission")
		}
	}
	verifAssert(found, "description-query-answered")
	verifReach("end")
}

func Harness_C01_desc_grp() { harnessC01Desc(verifKindGrp) }
func Harness_C01_desc_p2p() { harnessC01Desc(verifKindP2P) }

// ---- C01: once the hub has unloaded a topic (idle timeout or rehash) the old instance hands out no more
// numbers: a publish it still finds in its queue before it sees the exit request is refused. Otherwise the
// old instance and a freshly loaded one would both issue lastID+1.
func Harness_C01_unloaded_instance_issues_no_numbers() {
	fx := verifNewTopic(verifKindGrp, 2)
	t := fx.topic
	t.lastID = verifSeq("lastID")
	fx.store.topics[t.name].SeqId = t.lastID
	t.exit = make(chan *shutDown, 1)
	fx.hub.topics.Store(t.name, t)
	author := fx.uids[1]
	sess := verifNewSession("sid-a", author, auth.LevelAuth, 32)
	fx.attach(sess, author, false)
	reason := []int{StopNone, StopRehashing}[verifChoose("reason", 2)]
	err := fx.hub.topicUnreg(nil, t.name, nil, reason)
	verifAssert(err == nil, "unload-succeeds")
	_, still := fx.hub.topics.Load(t.name)
	verifAssert(!still, "unloaded-topic-dropped-from-the-hub")
	n0, rows0 := t.lastID, len(fx.store.msgs)
	pub := &ClientComMessage{Id: "p1", AsUser: author.UserId(), AuthLvl: int(auth.LevelAuth), Original: t.name, RcptTo: t.name,
		Timestamp: types.TimeNow(), sess: sess, init: true, Pub: &MsgClientPub{Id: "p1", Topic: t.name, Content: "x"}}
	t.handlePubBroadcast(pub)
	accepted := false
	for _, r := range verifDrainSend(sess) {
		if r != nil && r.Ctrl != nil && r.Ctrl.Code == 202 {
			accepted = true
		}
	}
	verifAssert(!accepted && t.lastID == n0 && len(fx.store.msgs) == rows0, "unloaded-instance-issues-no-number")
	verifReach("end")
}

// ---- C01: messages the server writes itself (call accepted / finished / missed replacements go through
// saveAndBroadcastMessage without a {pub}): a failed save consumes no number and shows nothing to anybody.
func Harness_C01_server_generated_message_fault() {
	fx := verifNewTopic(verifKindP2P, 2)
	t := fx.topic
	t.lastID = verifSeq("lastID")
	fx.store.topics[t.name].SeqId = t.lastID
	author, peer := fx.uids[0], fx.uids[1]
	sa := verifNewSession("sid-a", author, auth.LevelAuth, 32)
	sb := verifNewSession("sid-b", peer, auth.LevelAuth, 32)
	fx.attach(sa, author, false)
	fx.attach(sb, peer, false)
	fx.store.failAt = verifChoose("failAt", 4) - 1
	n0, rows0 := t.lastID, len(fx.store.msgs)
	msg := &ClientComMessage{AsUser: author.UserId(), AuthLvl: int(auth.LevelAuth), Original: t.original(author), RcptTo: t.name,
		Timestamp: types.TimeNow(), sess: sa, init: true}
	head := map[string]any{"webrtc": "accepted", "replace": ":3", "mime": "application/x-tinode-webrtc"}
	err := t.saveAndBroadcastMessage(msg, author, false, nil, head, "call")
	datas := 0
	for _, s := range []*Session{sa, sb} {
		for _, r := range verifDrainSend(s) {
			if r != nil && r.Data != nil {
				datas++
				verifAssert(r.Data.SeqId == n0+1, "copy-carries-the-new-number")
			}
		}
	}
	stored := fx.store.topics[t.name].SeqId
	if err != nil || fx.store.failed && len(fx.store.msgs) == rows0 {
		verifAssert(err != nil, "failed-save-is-reported")
		verifAssert(t.lastID == n0, "failed-save-consumes-no-number")
		verifAssert(datas == 0, "failed-save-shows-nothing")
	} else {
		verifAssert(t.lastID == n0+1 && len(fx.store.msgs) == rows0+1, "saved-message-takes-the-next-number")
		verifAssert(datas == 2, "saved-message-reaches-both-parties")
	}
	verifAssert(stored >= t.lastID, "stored-high-water-mark-covers-every-number-shown")
	verifReach("end")
}

// ---- C03: a topic is suspended (read-only: publishes are refused) exactly while the account it depends on is
// suspended - p2p topics of the user and group topics the user owns; topics of others and the user's own
// 'me'/'fnd' are not touched. Real Hub.topicsStateForUser followed by one publish through the real handler.
func Harness_C03_suspended_account_topics() {
	verifNewStore()
	hub := verifInitGlobals()
	uid, other := types.Uid(5), types.Uid(6)
	mk := func(name string, cat types.TopicCat, owner types.Uid, members ...types.Uid) *Topic {
		t := &Topic{name: name, xoriginal: name, cat: cat, owner: owner, perUser: map[types.Uid]perUserData{}, sessions: map[*Session]perSessionData{}}
		for _, m := range members {
			t.perUser[m] = perUserData{modeWant: types.ModeCFull, modeGiven: types.ModeCFull, topicName: name}
		}
		hub.topics.Store(name, t)
		return t
	}
	p2p := mk(uid.P2PName(other), types.TopicCatP2P, 0, uid, other)
	owned := mk("grpOWNEDBYUSER1", types.TopicCatGrp, uid, uid, other)
	foreign := mk("grpOWNEDBYOTHER", types.TopicCatGrp, other, uid, other)
	othersP2P := mk(other.P2PName(types.Uid(7)), types.TopicCatP2P, 0, other, types.Uid(7))
	me := mk(uid.UserId(), types.TopicCatMe, 0, uid)
	suspended := verifNondetBool("suspended")
	if !suspended {
		// coming back from a suspension
		for _, t := range []*Topic{p2p, owned} {
			t.markReadOnly(true)
		}
	}
	hub.topicsStateForUser(uid, suspended)
	verifAssert(p2p.isReadOnly() == suspended && owned.isReadOnly() == suspended, "users-p2p-and-owned-topics-follow-the-account-state")
	verifAssert(!foreign.isReadOnly() && !othersP2P.isReadOnly() && !me.isReadOnly(), "other-topics-untouched")
	// a member with write permission publishes to the group the suspended user owns
	sess := verifNewSession("sid-o", other, auth.LevelAuth, 16)
	owned.sessions[sess] = perSessionData{uid: other}
	verifStore.topics[owned.name] = &types.Topic{ObjHeader: types.ObjHeader{Id: owned.name}}
	pub := &ClientComMessage{Id: "p1", AsUser: other.UserId(), AuthLvl: int(auth.LevelAuth), Original: owned.name, RcptTo: owned.name,
		Timestamp: types.TimeNow(), sess: sess, init: true, Pub: &MsgClientPub{Id: "p1", Topic: owned.name, Content: "x"}}
	owned.handlePubBroadcast(pub)
	accepted := false
	for _, r := range verifDrainSend(sess) {
		if r != nil && r.Ctrl != nil && r.Ctrl.Code == 202 {
			accepted = true
		}
	}
	verifAssert(accepted == !suspended, "publish-to-a-suspended-owners-group-refused")
	verifReach("end")
}
