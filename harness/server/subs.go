//go:build verif

package main

import (
	"github.com/tinode/chat/server/auth"
	"github.com/tinode/chat/server/store/types"
)

// One subscription-management step on a group topic from an arbitrary state satisfying INV_owner.
// Shared by C06 (single owner), C07 (authorised permission changes) and C08 (cache == store).

// The text of presence notifications is not the subject here (C05 decides the delta algebra);
// notifySubChange renders modes to text, which forks once per permission bit.
//
//verif:override (*github.com/tinode/chat/server.Topic).notifySubChange
func verifNotifySubChange(t *Topic, uid, actor types.Uid, isChan bool, oldWant, oldGiven, newWant, newGiven types.AccessMode, skip string) {
	verifNotified = append(verifNotified, uid)
	verifNotes = append(verifNotes, verifNote{uid, oldWant, oldGiven, newWant, newGiven})
}

var verifNotified []types.Uid

// what the change notifications said (C05: whoever tracks permissions from them must end up with the truth)
type verifNote struct {
	uid                                    types.Uid
	oldWant, oldGiven, newWant, newGiven types.AccessMode
}

var verifNotes []verifNote

// assertChangesNotified: every member whose requested or granted mode this step changed was the subject of a
// change notification that ends at the modes the topic now holds - a tracker applying the notifications in order
// arrives at the authoritative permissions.
func (w *verifSubWorld) assertChangesNotified() {
	for _, u := range w.allUsers() {
		old, wasIn := w.before[u]
		now, isIn := w.t.perUser[u]
		if !wasIn || !isIn || now.deleted {
			continue
		}
		if old.modeWant == now.modeWant && old.modeGiven == now.modeGiven {
			continue
		}
		last := -1
		for i, n := range verifNotes {
			if n.uid == u {
				last = i
			}
		}
		verifAssert(last >= 0, "permission-change-is-notified")
		if last >= 0 {
			n := verifNotes[last]
			verifAssert(n.newWant == now.modeWant && n.newGiven == now.modeGiven, "notification-ends-at-the-authoritative-modes")
		}
	}
}

// knobs for focused variants
var verifPrevBase = types.ModeCPublic // fixed bits of the former member's stored modes
var verifForceActor = -1              // index into allUsers(), -1 = any
var verifForceTarget = -1             // index into allUsers() for {set sub user=...}, -1 = any
var verifSubLimit = 4                 // globals.maxSubscriberCount for the world
var verifSubChanTopic = false         // channel-enabled group; requests may then be addressed by the chn name

// bits of every requested/granted/stored mode that are symbolic (a knob: focused harnesses widen it)
var verifSubBits = types.ModeOwner | types.ModeJoin | types.ModeApprove | types.ModeShare

// verifModeBits returns base with the O, J, A, S bits arbitrary.
func verifModeBits(name string, base types.AccessMode) types.AccessMode {
	return (base &^ verifSubBits) | (types.AccessMode(verifNondetU8(name)) & verifSubBits)
}

type verifSubWorld struct {
	fx       *verifFixture
	t        *Topic
	members  []types.Uid // current members, members[0] is the owner
	previous types.Uid   // a former member with a soft-deleted stored subscription
	stranger types.Uid   // a user unknown to the topic
	sess     map[types.Uid]*Session
	actor    types.Uid
	before   map[types.Uid]perUserData
	beforeIn map[types.Uid]bool
	sbefore  map[types.Uid]types.Subscription
	ownerBefore types.Uid
}

func (w *verifSubWorld) isOwnerMode(p perUserData) bool {
	return (p.modeWant & p.modeGiven).IsOwner()
}

func verifSubSetup(nMembers int) *verifSubWorld {
	w := &verifSubWorld{}
	kind := verifKindGrp
	if verifSubChanTopic {
		kind = verifKindChn
	}
	fx := verifNewTopic(kind, nMembers)
	w.fx, w.t = fx, fx.topic
	t := w.t
	verifNotified = nil
	verifNotes = nil
	globals.maxSubscriberCount = verifSubLimit
	w.members = fx.uids
	w.previous, w.stranger = 8, 9
	base := types.ModeCPublic
	for i, u := range fx.uids {
		pud := t.perUser[u]
		if i == 0 {
			// the owner: O and J in both
			pud.modeWant = verifModeBits("ownerWant", types.ModeCFull) | types.ModeOwner | types.ModeJoin
			pud.modeGiven = verifModeBits("ownerGiven", types.ModeCFull) | types.ModeOwner | types.ModeJoin
		} else {
			pud.modeWant = verifModeBits("want", base)
			pud.modeGiven = verifModeBits("given", base)
			// INV_owner: nobody else asks for ownership (a non-owner's request for O is always refused;
			// O may sit in the grant of a pending transferee)
			verifAssume(!pud.modeWant.IsOwner())
		}
		t.perUser[u] = pud
		sub := fx.store.subs[verifSubKey(t.name, u)]
		sub.ModeWant, sub.ModeGiven = pud.modeWant, pud.modeGiven
	}
	t.owner = fx.uids[0]
	fx.store.topics[t.name].Owner = t.owner.String()
	// a former member: stored, soft-deleted subscription with arbitrary previous modes
	now := types.TimeNow()
	fx.store.subs[verifSubKey(t.name, w.previous)] = &types.Subscription{
		User: w.previous.String(), Topic: t.name, DeletedAt: &now,
		ModeWant: verifModeBits("prevWant", verifPrevBase) &^ types.ModeOwner, ModeGiven: verifModeBits("prevGiven", verifPrevBase)}
	// user rows (defaults used when inviting)
	for _, u := range []types.Uid{fx.uids[0], w.previous, w.stranger} {
		fx.store.users[u] = &types.User{State: types.StateOK, Access: types.DefaultAccess{Auth: types.ModeCAuth, Anon: types.ModeNone}}
	}
	for _, u := range fx.uids {
		fx.store.users[u] = &types.User{State: types.StateOK, Access: types.DefaultAccess{Auth: types.ModeCAuth, Anon: types.ModeNone}}
	}
	t.computePerUserAcsUnion()
	// sessions: one per user; members may be attached when their grant has J
	w.sess = map[types.Uid]*Session{}
	for _, u := range append(append([]types.Uid{}, fx.uids...), w.previous, w.stranger) {
		s := verifNewSession("sid-"+u.String(), u, auth.LevelAuth, 32)
		s.inflightReqs = newBoundedWaitGroup(8)
		w.sess[u] = s
	}
	for _, u := range fx.uids {
		pud := t.perUser[u]
		if (pud.modeWant&pud.modeGiven).IsJoiner() && verifNondetBool("attached") {
			fx.attach(w.sess[u], u, false)
		}
	}
	w.snapshot()
	return w
}

func (w *verifSubWorld) snapshot() {
	w.before = map[types.Uid]perUserData{}
	w.beforeIn = map[types.Uid]bool{}
	w.sbefore = map[types.Uid]types.Subscription{}
	for u, p := range w.t.perUser {
		w.before[u] = p
		w.beforeIn[u] = true
	}
	for _, u := range w.allUsers() {
		if s := w.fx.store.subs[verifSubKey(w.t.name, u)]; s != nil {
			w.sbefore[u] = *s
		}
	}
	w.ownerBefore = w.t.owner
}

func (w *verifSubWorld) allUsers() []types.Uid {
	return append(append([]types.Uid{}, w.members...), w.previous, w.stranger)
}

// verifReqMode renders an arbitrary requested mode (O,J,A,S bits arbitrary over base) or "" / "N".
func verifReqMode(name string) string {
	switch verifChoose(name+"-kind", 3) {
	case 0:
		return ""
	case 1:
		return "N"
	}
	return verifModeBits(name, types.ModeCPublic).String()
}

const (
	verifOpSub = iota
	verifOpSetSelf
	verifOpSetOther
	verifOpDelSub
	verifOpLeaveUnsub
	verifOpCount
)

// step performs one arbitrary request by an arbitrary actor. Returns the op and target.
func (w *verifSubWorld) step(opFixed int) (op int, target types.Uid, replies []*ServerComMessage) {
	t := w.t
	users := w.allUsers()
	if verifForceActor >= 0 {
		w.actor = users[verifForceActor]
	} else {
		w.actor = users[verifChoose("actor", len(users))]
	}
	sess := w.sess[w.actor]
	op = opFixed
	if op < 0 {
		op = verifChoose("op", verifOpCount)
	}
	target = w.actor
	base := ClientComMessage{Id: "r1", AsUser: w.actor.UserId(), AuthLvl: int(auth.LevelAuth), Original: t.name, RcptTo: t.name,
		Timestamp: types.TimeNow(), sess: sess, init: true}
	if verifSubChanTopic && verifNondetBool("addressedByChannelName") {
		// expandTopicName routes chnX to the grpX topic; the handlers see the channel spelling in Original
		base.Original = types.GrpToChn(t.name)
	}
	switch op {
	case verifOpSub:
		// {sub} by a session that is not attached yet
		verifAssume(sess.getSub(t.name) == nil)
		sess.inflightReqs.Add(1)
		msg := base
		msg.Sub = &MsgClientSub{Id: "r1", Topic: t.name}
		if m := verifReqMode("subMode"); m != "" {
			msg.Sub.Set = &MsgSetQuery{Sub: &MsgSetSub{Mode: m}}
		}
		t.registerSession(&msg)
	case verifOpSetSelf:
		msg := base
		msg.Set = &MsgClientSet{Id: "r1", Topic: t.name, MsgSetQuery: MsgSetQuery{Sub: &MsgSetSub{Mode: verifReqMode("setMode")}}}
		msg.MetaWhat = constMsgMetaSub
		t.handleMeta(&msg)
	case verifOpSetOther:
		if verifForceTarget >= 0 {
			target = users[verifForceTarget]
		} else {
			target = users[verifChoose("target", len(users))]
		}
		verifAssume(target != w.actor)
		msg := base
		msg.Set = &MsgClientSet{Id: "r1", Topic: t.name, MsgSetQuery: MsgSetQuery{Sub: &MsgSetSub{User: target.UserId(), Mode: verifReqMode("grantMode")}}}
		msg.MetaWhat = constMsgMetaSub
		t.handleMeta(&msg)
	case verifOpDelSub:
		target = users[verifChoose("target", len(users))]
		msg := base
		msg.Del = &MsgClientDel{Id: "r1", Topic: t.name, What: "sub", User: target.UserId()}
		msg.MetaWhat = constMsgDelSub
		t.handleMeta(&msg)
	case verifOpLeaveUnsub:
		// leave+unsub comes from an attached session
		verifAssume(sess.getSub(t.name) != nil)
		sess.inflightReqs.Add(1)
		msg := base
		msg.Leave = &MsgClientLeave{Id: "r1", Topic: t.name, Unsub: true}
		t.unregisterSession(&msg)
	}
	replies = verifDrainSend(sess)
	return
}

// INV_owner: exactly one member with O in want∧given, and it is t.owner; the store agrees.
func (w *verifSubWorld) assertOwnerInvariant(sfx string) {
	t := w.t
	n := 0
	var who types.Uid
	for u, p := range t.perUser {
		if !p.deleted && w.isOwnerMode(p) {
			n++
			who = u
		}
	}
	verifAssert(n >= 1, "topic-has-an-owner"+sfx)
	verifAssert(n <= 1, "topic-has-at-most-one-owner"+sfx)
	if n == 1 {
		verifAssert(t.owner == who, "recorded-owner-is-the-effective-owner"+sfx)
	}
	// stored subscriptions: at most one live row with effective ownership
	sn := 0
	for _, u := range w.allUsers() {
		if s := w.fx.store.subs[verifSubKey(t.name, u)]; s != nil && s.DeletedAt == nil && (s.ModeWant&s.ModeGiven).IsOwner() {
			sn++
		}
	}
	verifAssert(sn == 1, "store-has-exactly-one-owner-subscription"+sfx)
	for u, p := range t.perUser {
		if u != t.owner {
			verifAssert(!p.modeWant.IsOwner(), "non-owner-never-holds-a-request-for-ownership"+sfx)
		}
	}
	for _, u := range w.allUsers() {
		if s := w.fx.store.subs[verifSubKey(t.name, u)]; s != nil && u != t.owner {
			verifAssert(!s.ModeWant.IsOwner(), "stored-non-owner-never-holds-a-request-for-ownership"+sfx)
		}
	}
}

func verifIsError(replies []*ServerComMessage) bool {
	for _, r := range replies {
		if r != nil && r.Ctrl != nil && r.Ctrl.Code >= 400 {
			return true
		}
	}
	return false
}

func harnessC06Step(nMembers, op int) {
	w := verifSubSetup(nMembers)
	t := w.t
	_, target, replies := w.step(op)
	w.fx.store.failAt = -1
	denied := verifIsError(replies)
	sfx := ""
	_ = target
	w.assertOwnerInvariant(sfx)
	ownerNow := t.perUser[w.ownerBefore]
	if t.owner != w.ownerBefore {
		// ownership moved: only by the new owner accepting a grant the previous owner made, and the previous owner lost it
		verifAssert(w.actor == t.owner, "ownership-moves-only-by-acceptance"+sfx)
		verifAssert(w.before[t.owner].modeGiven.IsOwner(), "ownership-moves-only-after-a-grant"+sfx)
		verifAssert(!w.isOwnerMode(ownerNow), "previous-owner-loses-ownership"+sfx)
	} else {
		// owner keeps O and J whoever asked
		verifAssert(w.isOwnerMode(ownerNow) && (ownerNow.modeWant&ownerNow.modeGiven).IsJoiner(), "owner-is-not-removed-banned-or-demoted"+sfx)
	}
	// The other half of "ownership moves only after a grant by the owner": no step by anybody else puts O into
	// anyone's granted mode - so every O found in a non-owner's grant in a pre-state was put there by the owner.
	for _, u := range w.allUsers() {
		now, in := t.perUser[u]
		if !in || !now.modeGiven.IsOwner() {
			continue
		}
		had := false
		if old, was := w.before[u]; was {
			had = old.modeGiven.IsOwner()
		} else if prev, ok := w.sbefore[u]; ok {
			// a former member's grant survives in its soft-deleted row and is restored on resubscription
			had = prev.ModeGiven.IsOwner()
		}
		if !had {
			verifAssert(w.actor == w.ownerBefore, "ownership-granted-only-by-the-owner"+sfx)
		}
	}
	_ = denied
	verifReach("end")
}

func Harness_C06_step_2()            { harnessC06Step(2, -1) }
// channel-enabled group, requests addressed by either spelling of the name
func Harness_C06_step_chn_leaveunsub() {
	verifSubChanTopic = true
	harnessC06Step(2, verifOpLeaveUnsub)
}
func Harness_C06_step_chn_delsub() {
	verifSubChanTopic = true
	harnessC06Step(2, verifOpDelSub)
}
func Harness_C06_step_3_sub()        { harnessC06Step(3, verifOpSub) }
func Harness_C06_step_3_setself()    { harnessC06Step(3, verifOpSetSelf) }
func Harness_C06_step_3_setother()   { harnessC06Step(3, verifOpSetOther) }
func Harness_C06_step_3_delsub()     { harnessC06Step(3, verifOpDelSub) }
func Harness_C06_step_3_leaveunsub() { harnessC06Step(3, verifOpLeaveUnsub) }
