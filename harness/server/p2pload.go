//go:build verif

package main

import (
	"github.com/tinode/chat/server/auth"
	"github.com/tinode/chat/server/store/types"
)

// P2P load and resubscribe: what the real initTopicP2P restores from the store, and that a
// resubscription on a live topic leaves cache and store in agreement.

func verifP2PStore(seq, del int, aRow bool) (a, b types.Uid, name string) {
	verifNewStore()
	verifInitGlobals()
	a, b = types.Uid(1), types.Uid(2)
	name = a.P2PName(b)
	st := verifStore
	st.topics[name] = &types.Topic{ObjHeader: types.ObjHeader{Id: name}, SeqId: seq, DelId: del}
	for _, u := range []types.Uid{a, b} {
		st.users[u] = &types.User{State: types.StateOK, Access: types.DefaultAccess{Auth: types.ModeCP2P, Anon: types.ModeNone}}
		st.users[u].SetUid(u)
	}
	st.subs[verifSubKey(name, b)] = &types.Subscription{User: b.String(), Topic: name, ModeWant: types.ModeCP2P, ModeGiven: types.ModeCP2P}
	if aRow {
		st.subs[verifSubKey(name, a)] = &types.Subscription{User: a.String(), Topic: name, ModeWant: types.ModeCP2P, ModeGiven: types.ModeCP2P}
	}
	return
}

// After an unload, numbering and the delete counter resume from the stored topic row whichever of
// the two subscriptions still exists.
func Harness_C01_p2p_reload() {
	seq, del := verifSeq("storedSeq"), verifSeq("storedDel")
	aRow := verifNondetBool("requesterStillSubscribed")
	a, b, name := verifP2PStore(seq, del, aRow)
	rb, vb := verifSeq("readB"), verifSeq("recvB")
	verifAssume(rb <= vb && vb <= seq)
	sb := verifStore.subs[verifSubKey(name, b)]
	sb.ReadSeqId, sb.RecvSeqId = rb, vb
	t := &Topic{name: name, xoriginal: b.UserId(), perUser: map[types.Uid]perUserData{}, sessions: map[*Session]perSessionData{}}
	sess := verifNewSession("sid-a", a, auth.LevelAuth, 32)
	sreg := &ClientComMessage{Id: "s1", AsUser: a.UserId(), AuthLvl: int(auth.LevelAuth), Original: b.UserId(), RcptTo: name,
		Timestamp: types.TimeNow(), sess: sess, init: true, Sub: &MsgClientSub{Id: "s1", Topic: b.UserId()}}
	err := initTopicP2P(t, sreg)
	verifAssert(err == nil, "p2p-topic-loads")
	verifAssert(t.lastID == seq, "numbering-resumes-from-the-stored-high-water-mark")
	verifAssert(t.delID == del, "delete-counter-resumes-from-the-store")
	pb := t.perUser[b]
	verifAssert(pb.readID == rb && pb.recvID == vb, "peer-marks-restored")
	verifAssert(len(t.perUser) == 2, "both-participants-loaded")
	verifReach("end")
}

// A participant unsubscribes and subscribes again while the topic stays loaded: what the live topic
// reports for it equals what the store holds (a reload would answer the same).
func Harness_C08_p2p_resubscribe() {
	fx := verifNewTopic(verifKindP2P, 2)
	t := fx.topic
	verifNotified = nil
	a, b := fx.uids[0], fx.uids[1]
	t.lastID = verifSeq("lastID")
	fx.store.topics[t.name].SeqId = t.lastID
	for _, u := range fx.uids {
		fx.store.users[u] = &types.User{State: types.StateOK, Access: types.DefaultAccess{Auth: types.ModeCP2P}}
		fx.store.users[u].SetUid(u)
		pud := t.perUser[u]
		pud.readID, pud.recvID = verifSeq("read"), verifSeq("recv")
		verifAssume(pud.readID <= pud.recvID && pud.recvID <= t.lastID)
		t.perUser[u] = pud
		sub := fx.store.subs[verifSubKey(t.name, u)]
		sub.ReadSeqId, sub.RecvSeqId = pud.readID, pud.recvID
	}
	sa := verifNewSession("sid-a", a, auth.LevelAuth, 32)
	sa.inflightReqs = newBoundedWaitGroup(8)
	sb := verifNewSession("sid-b", b, auth.LevelAuth, 32)
	fx.attach(sa, a, false)
	fx.attach(sb, b, false)
	base := ClientComMessage{AsUser: a.UserId(), AuthLvl: int(auth.LevelAuth), Original: b.UserId(), RcptTo: t.name,
		Timestamp: types.TimeNow(), sess: sa, init: true}
	// leave + unsubscribe
	sa.inflightReqs.Add(1)
	m1 := base
	m1.Id = "l1"
	m1.Leave = &MsgClientLeave{Id: "l1", Topic: b.UserId(), Unsub: true}
	t.unregisterSession(&m1)
	for {
		select {
		case n := <-sa.detach:
			sa.delSub(n)
			continue
		default:
		}
		break
	}
	verifAssert(t.perUser[a].deleted, "unsubscribed-participant-marked-removed")
	// subscribe again
	sa.inflightReqs.Add(1)
	m2 := base
	m2.Id = "s2"
	m2.Sub = &MsgClientSub{Id: "s2", Topic: b.UserId()}
	t.registerSession(&m2)
	pa := t.perUser[a]
	row := fx.store.subs[verifSubKey(t.name, a)]
	verifAssert(!pa.deleted && row != nil && row.DeletedAt == nil, "resubscribed-in-cache-and-store")
	if row != nil {
		verifAssert(pa.readID == row.ReadSeqId && pa.recvID == row.RecvSeqId, "live-marks-equal-stored-marks-after-resubscribe")
		verifAssert(pa.delID == row.DelId, "live-delete-id-equals-stored-after-resubscribe")
		verifAssert(pa.modeWant == row.ModeWant && pa.modeGiven == row.ModeGiven, "live-modes-equal-stored-after-resubscribe")
	}
	verifReach("end")
}

// Reload of the other stored topic kinds: numbering resumes from the stored high-water mark whoever is (or is
// not) subscribed - 'sys' accepts publishes from users without a subscription, and a group may have lost all
// but its owner.
func Harness_C01_sys_grp_reload() {
	verifNewStore()
	verifInitGlobals()
	seq, del := verifSeq("storedSeq"), verifSeq("storedDel")
	kind := verifChoose("kind", 2)
	name := []string{"sys", "grpAAAAAAAAAAB"}[kind]
	st := &types.Topic{ObjHeader: types.ObjHeader{Id: name}, SeqId: seq, DelId: del}
	verifStore.topics[name] = st
	nSubs := verifChoose("subscribers", 3)
	if kind == 1 && nSubs == 0 {
		nSubs = 1 // a group always has its owner
	}
	for i := 0; i < nSubs; i++ {
		u := types.Uid(5 + i)
		mode := types.ModeCPublic
		if i == 0 && kind == 1 {
			mode = types.ModeCFull
			st.Owner = u.String()
		}
		verifStore.subs[verifSubKey(name, u)] = &types.Subscription{User: u.String(), Topic: name, ModeWant: mode, ModeGiven: mode}
		verifStore.users[u] = &types.User{State: types.StateOK}
	}
	t := &Topic{name: name, xoriginal: name, perUser: map[types.Uid]perUserData{}, sessions: map[*Session]perSessionData{}}
	var err error
	if kind == 0 {
		err = initTopicSys(t)
	} else {
		err = initTopicGrp(t)
	}
	verifAssert(err == nil, "topic-loads")
	verifAssert(t.lastID == seq, "numbering-resumes-from-the-stored-high-water-mark")
	if kind == 1 {
		verifAssert(t.delID == del, "delete-counter-resumes-from-the-store")
	}
	verifAssert(len(t.perUser) == nSubs, "subscribers-loaded")
	verifReach("end")
}

// C07 "unsubscribing and subscribing again restores the previous grant instead of the default", p2p and
// unloaded: the requester deleted its subscription (the soft-deleted row keeps what the peer had granted,
// e.g. a grant without join = blocked); the topic is loaded by the requester's new {sub}.
func Harness_C07_p2p_resub_unloaded_prev_grant() {
	seq := verifSeq("storedSeq")
	a, b, name := verifP2PStore(seq, 0, true)
	prev := (verifMode("prevGiven") & types.ModeCP2P) | types.ModeApprove
	row := verifStore.subs[verifSubKey(name, a)]
	row.ModeGiven = prev
	now := types.TimeNow()
	row.DeletedAt = &now
	t := &Topic{name: name, xoriginal: b.UserId(), perUser: map[types.Uid]perUserData{}, sessions: map[*Session]perSessionData{}}
	sess := verifNewSession("sid-a", a, auth.LevelAuth, 32)
	sub := &MsgClientSub{Id: "s1", Topic: b.UserId()}
	if verifNondetBool("withMode") {
		sub.Set = &MsgSetQuery{Sub: &MsgSetSub{Mode: verifMode("want").String()}}
	}
	sreg := &ClientComMessage{Id: "s1", AsUser: a.UserId(), AuthLvl: int(auth.LevelAuth), Original: b.UserId(), RcptTo: name,
		Timestamp: now, sess: sess, init: true, Sub: sub}
	err := initTopicP2P(t, sreg)
	verifAssert(err == nil, "p2p-topic-loads")
	pa := t.perUser[a]
	verifAssert(pa.modeGiven == prev, "resubscribing-restores-the-previous-grant")
	after := verifStore.subs[verifSubKey(name, a)]
	verifAssert(after != nil && after.DeletedAt == nil && after.ModeGiven == prev, "stored-grant-is-the-previous-grant")
	pb := t.perUser[b]
	verifAssert(pb.modeGiven == types.ModeCP2P && pb.modeWant == types.ModeCP2P, "peer-modes-untouched")
	verifReach("end")
}

// C07 (p2p creation and re-creation through the real initTopicP2P): whatever default access the two users have
// configured, whatever modes the requester sends along, and whichever of the two subscriptions already exists,
// both participants' modes - cached and stored - stay within join/read/write/presence/approve and keep approve,
// the requester can join, and exactly the two users are participants.
func Harness_C07_p2p_create_modes() {
	verifNewStore()
	verifInitGlobals()
	a, b := types.Uid(1), types.Uid(2)
	name := a.P2PName(b)
	st := verifStore
	for _, u := range []types.Uid{a, b} {
		// default access as account creation and {set me defacs} leave it: within JRWPA, and either nothing at all
		// or with approve
		da := types.DefaultAccess{Auth: (verifMode("defaultAuth") & types.ModeCP2P) | types.ModeApprove, Anon: (verifMode("defaultAnon") & types.ModeCP2P) | types.ModeApprove}
		if verifNondetBool("authNone") {
			da.Auth = types.ModeNone
		}
		if verifNondetBool("anonNone") {
			da.Anon = types.ModeNone
		}
		st.users[u] = &types.User{State: types.StateOK, Access: da}
		st.users[u].SetUid(u)
	}
	switch verifChoose("existing", 4) {
	case 3: // plain reload: both subscriptions are there, each with its own arbitrary (sane) modes
		st.topics[name] = &types.Topic{ObjHeader: types.ObjHeader{Id: name}}
		for _, u := range []types.Uid{a, b} {
			st.subs[verifSubKey(name, u)] = &types.Subscription{User: u.String(), Topic: name,
				ModeWant:  (verifMode("storedWant") & types.ModeCP2P) | types.ModeApprove,
				ModeGiven: (verifMode("storedGiven") & types.ModeCP2P) | types.ModeApprove}
		}
	case 1: // the topic exists, only the responder's subscription is there (the requester had left)
		st.topics[name] = &types.Topic{ObjHeader: types.ObjHeader{Id: name}}
		st.subs[verifSubKey(name, b)] = &types.Subscription{User: b.String(), Topic: name, ModeWant: types.ModeCP2P, ModeGiven: types.ModeCP2P}
	case 2: // only the requester's subscription is there (the responder had left)
		st.topics[name] = &types.Topic{ObjHeader: types.ObjHeader{Id: name}}
		st.subs[verifSubKey(name, a)] = &types.Subscription{User: a.String(), Topic: name, ModeWant: types.ModeCP2P, ModeGiven: types.ModeCP2P}
	}
	lvl := []auth.Level{auth.LevelAuth, auth.LevelAnon, auth.LevelRoot}[verifChoose("level", 3)]
	sub := &MsgClientSub{Id: "s1", Topic: b.UserId()}
	if verifNondetBool("withSet") {
		sub.Set = &MsgSetQuery{}
		texts := []string{"", "N", "JRWPA", "JRWPASDO", "JP", "RW", "O", "junk"}
		if verifNondetBool("withMode") {
			sub.Set.Sub = &MsgSetSub{Mode: texts[verifChoose("wantText", len(texts))]}
		}
		if verifNondetBool("withDefacs") {
			sub.Set.Desc = &MsgSetDesc{DefaultAcs: &MsgDefaultAcsMode{Auth: texts[verifChoose("givenToPeerText", len(texts))]}}
		}
	}
	t := &Topic{name: name, xoriginal: b.UserId(), perUser: map[types.Uid]perUserData{}, sessions: map[*Session]perSessionData{}}
	sess := verifNewSession("sid-a", a, lvl, 32)
	sreg := &ClientComMessage{Id: "s1", AsUser: a.UserId(), AuthLvl: int(lvl), Original: b.UserId(), RcptTo: name,
		Timestamp: types.TimeNow(), sess: sess, init: true, Sub: sub}
	err := initTopicP2P(t, sreg)
	verifAssert(err == nil, "p2p-topic-loads")
	if err != nil {
		verifReach("end")
		return
	}
	verifAssert(len(t.perUser) == 2, "p2p-has-exactly-two-participants")
	for _, u := range []types.Uid{a, b} {
		p, ok := t.perUser[u]
		verifAssert(ok, "both-users-are-participants")
		verifAssert(p.modeWant&^types.ModeCP2P == 0 && p.modeGiven&^types.ModeCP2P == 0, "p2p-modes-within-JRWPA")
		// "no access at all" (a user whose default access refuses strangers) is the one mode without approve
		verifAssert(p.modeWant.IsApprover() || p.modeWant == types.ModeNone, "p2p-modes-keep-approve")
		verifAssert(p.modeGiven.IsApprover() || p.modeGiven == types.ModeNone, "p2p-modes-keep-approve")
		row := st.subs[verifSubKey(name, u)]
		verifAssert(row != nil && row.DeletedAt == nil, "both-subscriptions-stored")
		if row != nil {
			verifAssert(row.ModeWant == p.modeWant && row.ModeGiven == p.modeGiven, "stored-modes-equal-live-modes")
		}
		peer := a
		if u == a {
			peer = b
		}
		verifAssert(t.original(u) == peer.UserId(), "p2p-topic-shows-each-participant-the-other")
	}
	verifReach("end")
}
