//go:build verif

package main

import (
	"github.com/tinode/chat/server/auth"
	"github.com/tinode/chat/server/store"
	"github.com/tinode/chat/server/store/types"
)

// C03 (session side): "a publish is accepted if and only if the session is attached to the topic ... (the system
// topic accepts any logged-in author without attachment)". The attachment gate lives in Session.publish alone -
// neither the hub nor the topic look at it again - so it is checked through the real Session.dispatch, followed
// by what the hub and the topic do with whatever the session handed on (Hub.run's routing of client messages to
// a live topic is replayed literally).
func Harness_C03_session_publish_gate() {
	fx := verifNewTopic(verifKindGrp, 2)
	t := fx.topic
	hub := fx.hub
	hub.topicPut(t.name, t)
	store.Devices = verifDevices{}
	verifInstallStoreObj(&verifAuthOutcome{err: types.ErrFailed})
	for _, u := range fx.uids {
		fx.store.users[u] = &types.User{State: types.StateOK, Access: types.DefaultAccess{Auth: types.ModeCAuth}}
	}
	fx.store.users[verifRootUid] = &types.User{State: types.StateOK}
	author := fx.uids[1]
	// a member's own session listening
	other := verifNewSession("sid-owner", fx.uids[0], auth.LevelAuth, 32)
	fx.attach(other, fx.uids[0], false)

	s := verifNewDispatchSession("sid-1")
	s.ver = minSupportedVersionValue
	msg := &ClientComMessage{Pub: &MsgClientPub{Id: "p1", Topic: t.name, Content: "x", NoEcho: verifNondetBool("noecho")}}
	onBehalf := verifNondetBool("rootOnBehalfOfTheAuthor")
	if onBehalf {
		s.uid, s.authLvl = verifRootUid, auth.LevelRoot
		msg.Extra = &MsgClientExtra{AsUser: author.UserId(), AuthLevel: "auth"}
	} else {
		s.uid, s.authLvl = author, auth.LevelAuth
	}
	attached := verifNondetBool("attached")
	if attached {
		fx.attach(s, author, false)
	}
	rows0, last0 := len(fx.store.msgs), t.lastID

	s.dispatch(msg)
	// Hub.run: a client message from a session that is not attached goes to the live topic's queue
	for len(hub.routeCli) > 0 {
		m := <-hub.routeCli
		if dst := hub.topicGet(m.RcptTo); dst != nil {
			dst.clientMsg <- m
		} else if m.Note == nil {
			m.sess.queueOut(NoErrAcceptedExplicitTs(m.Id, m.RcptTo, types.TimeNow(), m.Timestamp))
		}
	}
	for len(t.clientMsg) > 0 {
		t.handleClientMsg(<-t.clientMsg)
	}

	replies := verifDrainSend(s)
	accepted := len(fx.store.msgs) > rows0
	verifAssert(accepted == attached, "publish-accepted-iff-the-session-is-attached")
	if !attached {
		verifAssert(t.lastID == last0, "refused-publish-consumes-no-id")
		refused := false
		for _, r := range replies {
			if r != nil && r.Ctrl != nil && r.Ctrl.Id == "p1" && r.Ctrl.Code >= 400 {
				refused = true
			}
			verifAssert(r == nil || r.Data == nil, "refused-publish-delivers-nothing")
		}
		verifAssert(refused, "refused-publish-gets-an-error-reply")
		verifAssert(len(verifDrainSend(other)) == 0, "refused-publish-reaches-nobody")
	}
	verifReach("end")
}
