//go:build verif

package main

import (
	"encoding/json"
	"time"

	"github.com/tinode/chat/pbx"

	"github.com/tinode/chat/server/store/types"
)

// C20 (gRPC rendering of replies): every {ctrl} reply the server builds with parameters carries those parameters
// in its protobuf rendering too - whatever Go map type the handler used for them. The JSON encoder renders any
// map; the protobuf converter has to cope with each type by hand.

// json.Marshal is reflection-driven: the engine replaces it by a tagging stub (non-nil value -> non-empty bytes).
//
//verif:override encoding/json.Marshal
func verifJSONMarshalTag(v any) ([]byte, error) { return []byte("J"), nil }

var _ = json.Marshal

func Harness_C20_grpc_ctrl_params() {
	now := types.TimeNow()
	req := &ClientComMessage{Id: "r1", Original: "grpAAAAAAAAAAB", Timestamp: now}
	var r *ServerComMessage
	want := 0
	switch verifChoose("reply", 8) {
	case 0:
		r, want = InfoUseOtherReply(req, "grpBBBBBBBBBBB", now), 1
	case 1:
		r, want = NoContentParamsReply(req, now, map[string]string{"what": "tags"}), 1
	case 2:
		r, want = NoContentParams("r1", "grpAAAAAAAAAAB", now, now, map[string]string{"what": "del"}), 1
	case 3:
		r, want = NoContentParamsReply(req, now, map[string]any{"what": "data"}), 1
	case 4:
		r, want = NoErrParamsReply(req, now, map[string]any{"seq": 5, "acs": "x"}), 2
	case 5:
		r, want = NoErrDeliveredParams("r1", "grpAAAAAAAAAAB", now, map[string]any{"what": "data", "count": 3}), 2
	case 6:
		r, want = NoErrParams("r1", "grpAAAAAAAAAAB", now, map[string]string{"url": "/v0/file/s/x"}), 1
	case 7:
		r, want = NoErrReply(req, now), 0
	}
	pkt := pbServSerialize(r)
	ctrl := pkt.GetCtrl()
	verifAssert(ctrl != nil, "ctrl-rendered")
	if ctrl != nil {
		verifAssert(ctrl.GetId() == r.Ctrl.Id && ctrl.GetTopic() == r.Ctrl.Topic && int(ctrl.GetCode()) == r.Ctrl.Code && ctrl.GetText() == r.Ctrl.Text, "ctrl-fields-carried")
		verifAssert(len(ctrl.GetParams()) == want, "ctrl-params-carried-in-the-protobuf-rendering")
		// each value is carried as its JSON rendering (what the JSON transport shows and what the client-side
		// converter decodes), whatever Go map type the handler used
		switch in := r.Ctrl.Params.(type) {
		case map[string]string:
			for k, v := range in {
				exp, _ := json.Marshal(v)
				verifAssert(string(ctrl.GetParams()[k]) == string(exp), "ctrl-param-value-is-its-json-rendering")
			}
		case map[string]any:
			for k, v := range in {
				exp, _ := json.Marshal(v)
				verifAssert(string(ctrl.GetParams()[k]) == string(exp), "ctrl-param-value-is-its-json-rendering")
			}
		}
	}
	verifReach("end")
}

// C20 (gRPC rendering of the other replies): "every reply field that the protobuf schema defines carries the
// same value as in the JSON rendering". The JSON rendering is the struct itself (encoding/json by field tags),
// so each protobuf field is compared with the struct field it corresponds to, for arbitrary numbers, short
// arbitrary strings and every value of the enumerated fields; payload bytes go through the tagging stub.
func verifSmallStr(name string) string { return verifNondetString(name, 0, 2, "ab1") }

func verifI31(name string) int {
	v := verifNondetInt(name)
	verifAssume(v >= 0 && v < 1<<31)
	return v
}

var verifJSONPresWhat = []string{"on", "off", "ua", "upd", "gone", "acs", "term", "msg", "read", "recv", "del", "tags"}

func Harness_C20_grpc_reply_fields() {
	ts := time.Unix(1700000000, 123000000).UTC()
	ts2 := time.Unix(1700000100, 456000000).UTC()
	ms := func(t time.Time) int64 { return t.UnixNano() / 1000000 }
	switch verifChoose("kind", 5) {
	case 0: // {data}
		d := &MsgServerData{Topic: verifSmallStr("topic"), From: verifSmallStr("from"), Timestamp: ts, SeqId: verifI31("seq"),
			Head: map[string]any{"mime": "text/x-drafty"}, Content: "hello"}
		if verifNondetBool("deleted") {
			d.DeletedAt = &ts2
		}
		p := pbServSerialize(&ServerComMessage{Data: d}).GetData()
		verifAssert(p != nil, "data-rendered")
		verifAssert(p.GetTopic() == d.Topic && p.GetFromUserId() == d.From && int(p.GetSeqId()) == d.SeqId, "data-scalars-carried")
		verifAssert(p.GetTimestamp() == ms(ts) && (p.GetDeletedAt() != 0) == (d.DeletedAt != nil) && (d.DeletedAt == nil || p.GetDeletedAt() == ms(ts2)), "data-timestamps-carried")
		verifAssert(len(p.GetHead()) == 1 && len(p.GetContent()) > 0, "data-head-and-content-carried")
	case 1: // {pres}
		w := verifChoose("what", len(verifJSONPresWhat))
		pr := &MsgServerPres{Topic: verifSmallStr("topic"), Src: verifSmallStr("src"), What: verifJSONPresWhat[w], UserAgent: verifSmallStr("ua"),
			SeqId: verifI31("seq"), DelId: verifI31("del"), AcsTarget: verifSmallStr("tgt"), AcsActor: verifSmallStr("act"),
			DelSeq: []MsgDelRange{{LowId: 3, HiId: 9}, {LowId: 11}}}
		if verifNondetBool("withAcs") {
			pr.Acs = &MsgAccessMode{Want: "JRW", Given: "JRWP"}
		}
		p := pbServSerialize(&ServerComMessage{Pres: pr}).GetPres()
		verifAssert(p != nil, "pres-rendered")
		back := pbServDeserialize(pbServSerialize(&ServerComMessage{Pres: pr}))
		verifAssert(back.Pres != nil && back.Pres.What == pr.What, "pres-what-carried")
		verifAssert(p.GetTopic() == pr.Topic && p.GetSrc() == pr.Src && p.GetUserAgent() == pr.UserAgent && int(p.GetSeqId()) == pr.SeqId &&
			int(p.GetDelId()) == pr.DelId && p.GetTargetUserId() == pr.AcsTarget && p.GetActorUserId() == pr.AcsActor, "pres-scalars-carried")
		verifAssert(len(p.GetDelSeq()) == 2 && p.GetDelSeq()[0].GetLow() == 3 && p.GetDelSeq()[0].GetHi() == 9 && p.GetDelSeq()[1].GetLow() == 11, "pres-ranges-carried")
		verifAssert((p.GetAcs() != nil) == (pr.Acs != nil) && (pr.Acs == nil || (p.GetAcs().GetWant() == "JRW" && p.GetAcs().GetGiven() == "JRWP")), "pres-acs-carried")
	case 2: // {info}
		what := []string{"kp", "read", "recv", "call"}[verifChoose("what", 4)]
		ev := []string{"", "accept", "answer", "hang-up", "ice-candidate", "invite", "offer", "ringing"}[verifChoose("event", 8)]
		in := &MsgServerInfo{Topic: verifSmallStr("topic"), Src: verifSmallStr("src"), From: verifSmallStr("from"), What: what, SeqId: verifI31("seq"), Event: ev, Payload: []byte("pl")}
		pk := pbServSerialize(&ServerComMessage{Info: in})
		p := pk.GetInfo()
		verifAssert(p != nil, "info-rendered")
		back := pbServDeserialize(pk)
		verifAssert(back.Info != nil && back.Info.What == what && back.Info.Event == ev, "info-what-and-event-carried")
		verifAssert(p.GetTopic() == in.Topic && p.GetSrc() == in.Src && p.GetFromUserId() == in.From && int(p.GetSeqId()) == in.SeqId && string(p.GetPayload()) == "pl", "info-scalars-carried")
	case 3: // {meta sub}
		sub := MsgTopicSub{Online: verifNondetBool("online"), Acs: MsgAccessMode{Want: "JRW", Given: "JRWPA", Mode: "JRW"},
			ReadSeqId: verifI31("read"), RecvSeqId: verifI31("recv"), Public: "pub", Private: "priv",
			User: verifSmallStr("user"), Topic: verifSmallStr("topic"), SeqId: verifI31("seq"), DelId: verifI31("clear")}
		if verifNondetBool("stamps") {
			sub.UpdatedAt, sub.TouchedAt = &ts, &ts2
		}
		if verifNondetBool("seen") {
			sub.LastSeen = &MsgLastSeenInfo{When: &ts2, UserAgent: "ua1"}
		}
		m := pbServSerialize(&ServerComMessage{Meta: &MsgServerMeta{Id: "m1", Topic: "me", Sub: []MsgTopicSub{sub}}}).GetMeta()
		verifAssert(m != nil && m.GetId() == "m1" && m.GetTopic() == "me" && len(m.GetSub()) == 1, "meta-rendered")
		p := m.GetSub()[0]
		verifAssert(p.GetOnline() == sub.Online && int(p.GetReadId()) == sub.ReadSeqId && int(p.GetRecvId()) == sub.RecvSeqId, "sub-marks-carried")
		verifAssert(p.GetUserId() == sub.User && p.GetTopic() == sub.Topic, "sub-names-carried")
		verifAssert(int(p.GetSeqId()) == sub.SeqId && int(p.GetDelId()) == sub.DelId, "sub-counters-carried")
		verifAssert(p.GetAcs().GetWant() == "JRW" && p.GetAcs().GetGiven() == "JRWPA", "sub-acs-carried")
		verifAssert(len(p.GetPublic()) > 0 && len(p.GetPrivate()) > 0 && len(p.GetTrusted()) == 0, "sub-payloads-carried")
		if sub.UpdatedAt != nil {
			verifAssert(p.GetUpdatedAt() == ms(ts) && p.GetTouchedAt() == ms(ts2), "sub-timestamps-carried")
		} else {
			verifAssert(p.GetUpdatedAt() == 0 && p.GetTouchedAt() == 0, "sub-timestamps-carried")
		}
		if sub.LastSeen != nil {
			verifAssert(p.GetLastSeenTime() == ms(ts2) && p.GetLastSeenUserAgent() == "ua1", "sub-last-seen-carried")
		}
	case 4: // {meta desc/del/tags}
		desc := &MsgTopicDesc{CreatedAt: &ts, UpdatedAt: &ts2, State: verifSmallStr("state"), Online: verifNondetBool("online"), IsChan: verifNondetBool("chan"),
			DefaultAcs: &MsgDefaultAcsMode{Auth: "JRWPS", Anon: "N"}, Acs: &MsgAccessMode{Want: "JR", Given: "JRW"},
			SeqId: verifI31("seq"), ReadSeqId: verifI31("read"), RecvSeqId: verifI31("recv"), DelId: verifI31("clear"), Public: "pub"}
		meta := &MsgServerMeta{Id: "m2", Topic: "grpAAAAAAAAAAB", Desc: desc, Tags: []string{"a", "b"},
			Del: &MsgDelValues{DelId: verifI31("delid"), DelSeq: []MsgDelRange{{LowId: 1, HiId: 4}}}}
		m := pbServSerialize(&ServerComMessage{Meta: meta}).GetMeta()
		verifAssert(m != nil && m.GetDesc() != nil, "meta-desc-rendered")
		p := m.GetDesc()
		verifAssert(p.GetCreatedAt() == ms(ts) && p.GetUpdatedAt() == ms(ts2) && p.GetTouchedAt() == 0, "desc-timestamps-carried")
		verifAssert(p.GetState() == desc.State && p.GetOnline() == desc.Online && p.GetIsChan() == desc.IsChan, "desc-flags-carried")
		verifAssert(int(p.GetSeqId()) == desc.SeqId && int(p.GetReadId()) == desc.ReadSeqId && int(p.GetRecvId()) == desc.RecvSeqId && int(p.GetDelId()) == desc.DelId, "desc-counters-carried")
		verifAssert(p.GetDefacs().GetAuth() == "JRWPS" && p.GetDefacs().GetAnon() == "N" && p.GetAcs().GetWant() == "JR" && p.GetAcs().GetGiven() == "JRW", "desc-access-carried")
		verifAssert(len(m.GetTags()) == 2 && m.GetTags()[0] == "a" && m.GetTags()[1] == "b", "tags-carried")
		verifAssert(int(m.GetDel().GetDelId()) == meta.Del.DelId && len(m.GetDel().GetDelSeq()) == 1 && m.GetDel().GetDelSeq()[0].GetLow() == 1 && m.GetDel().GetDelSeq()[0].GetHi() == 4, "deletion-log-carried")
	}
	verifReach("end")
}

// Timestamps in gRPC requests are milliseconds: the if-modified-since of a {get}/{sub} names the same instant as the
// JSON text it stands for.
func Harness_C20_grpc_request_timestamp() {
	millis := []int64{0, 1, 123, 999}[verifChoose("millis", 4)]
	want := time.Unix(1700000000, millis*1000000).UTC()
	stamp := want.UnixNano() / 1000000
	q := pbGetQueryDeserialize(&pbx.GetQuery{What: "desc sub", Desc: &pbx.GetOpts{IfModifiedSince: stamp}, Sub: &pbx.GetOpts{IfModifiedSince: stamp, Limit: 5}})
	verifAssert(q != nil && q.Desc != nil && q.Sub != nil && q.Desc.IfModifiedSince != nil && q.Sub.IfModifiedSince != nil, "options-deserialized")
	verifAssert(q.Desc.IfModifiedSince.Equal(want) && q.Sub.IfModifiedSince.Equal(want), "if-modified-since-names-the-same-instant-as-in-json")
	verifAssert(q.Sub.Limit == 5, "limit-as-in-json")
	verifReach("end")
}
