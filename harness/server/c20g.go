//go:build verif

package main

import (
	"encoding/json"

	"github.com/tinode/chat/server/store/types"
)

// C20 (gRPC rendering of replies): every {ctrl} reply the server builds with parameters carries those parameters
// in its protobuf rendering too - whatever Go map type the handler used for them. The JSON encoder renders any
// map; the protobuf converter has to cope with each type by hand.

// json.Marshal is reflection-driven: the engine replaces it by a tagging stub (non-nil value -> non-empty bytes).
//
//verif:override encoding/json.Marshal
func verifJSONMarshalTag(v any) ([]byte, error) { return []byte("J"), nil }

var _ = json.Marshal

func Harness_C20_grpc_ctrl_params() {
	now := types.TimeNow()
	req := &ClientComMessage{Id: "r1", Original: "grpAAAAAAAAAAB", Timestamp: now}
	var r *ServerComMessage
	want := 0
	switch verifChoose("reply", 8) {
	case 0:
		r, want = InfoUseOtherReply(req, "grpBBBBBBBBBBB", now), 1
	case 1:
		r, want = NoContentParamsReply(req, now, map[string]string{"what": "tags"}), 1
	case 2:
		r, want = NoContentParams("r1", "grpAAAAAAAAAAB", now, now, map[string]string{"what": "del"}), 1
	case 3:
		r, want = NoContentParamsReply(req, now, map[string]any{"what": "data"}), 1
	case 4:
		r, want = NoErrParamsReply(req, now, map[string]any{"seq": 5, "acs": "x"}), 2
	case 5:
		r, want = NoErrDeliveredParams("r1", "grpAAAAAAAAAAB", now, map[string]any{"what": "data", "count": 3}), 2
	case 6:
		r, want = NoErrParams("r1", "grpAAAAAAAAAAB", now, map[string]string{"url": "/v0/file/s/x"}), 1
	case 7:
		r, want = NoErrReply(req, now), 0
	}
	pkt := pbServSerialize(r)
	ctrl := pkt.GetCtrl()
	verifAssert(ctrl != nil, "ctrl-rendered")
	if ctrl != nil {
		verifAssert(ctrl.GetId() == r.Ctrl.Id && ctrl.GetTopic() == r.Ctrl.Topic && int(ctrl.GetCode()) == r.Ctrl.Code && ctrl.GetText() == r.Ctrl.Text, "ctrl-fields-carried")
		verifAssert(len(ctrl.GetParams()) == want, "ctrl-params-carried-in-the-protobuf-rendering")
	}
	verifReach("end")
}
