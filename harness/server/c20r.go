//go:build verif

package main

import (
	"github.com/tinode/chat/pbx"
	"github.com/tinode/chat/server/auth"
)

// C20 (gRPC requests): "a request received over gRPC is interpreted exactly as the same request received as
// JSON". The JSON vocabulary of the enumerated request fields is written out here as literal tables (taken
// from docs/API.md); the harness pushes every value of each protobuf enumeration - and arbitrary small
// scalars - through the real pbCliDeserialize and compares with the JSON form of the same request, up to
// the interpretation Session.dispatch gives it (auth.ParseAuthLevel for the on-behalf-of level).

//verif:override (github.com/tinode/chat/pbx.AuthLevel).String
func verifAuthLevelStringR(x pbx.AuthLevel) string {
	switch x {
	case pbx.AuthLevel_ANON:
		return "ANON"
	case pbx.AuthLevel_AUTH:
		return "AUTH"
	case pbx.AuthLevel_ROOT:
		return "ROOT"
	case pbx.AuthLevel_NONE:
		return "NONE"
	}
	return "?"
}

// JSON decoding of payload bytes is reflection-driven: a stub (non-empty bytes -> their text, empty -> nil)
//
//verif:override github.com/tinode/chat/server.bytesToInterface
func verifBytesToInterfaceR(in []byte) any {
	if len(in) == 0 {
		return nil
	}
	return string(in)
}

var verifJSONDelWhat = []string{"", "msg", "topic", "sub", "user", "cred"}
var verifJSONNoteWhat = []string{"", "read", "recv", "kp", "call"}
var verifJSONCallEvent = []string{"", "accept", "answer", "hang-up", "ice-candidate", "invite", "offer", "ringing"}

const verifIdAlpha = "ab1"

func Harness_C20_grpc_request_fields() {
	id := verifNondetString("id", 0, 2, verifIdAlpha)
	topic := verifNondetString("topic", 0, 2, verifIdAlpha)
	pkt := &pbx.ClientMsg{}
	kind := verifChoose("kind", 5)
	switch kind {
	case 0:
		w := verifChoose("delWhat", 7) // one beyond the schema's range too
		hard := verifNondetBool("hard")
		user := verifNondetString("user", 0, 2, verifIdAlpha)
		pkt.Message = &pbx.ClientMsg_Del{Del: &pbx.ClientDel{Id: id, Topic: topic, What: pbx.ClientDel_What(w), Hard: hard, UserId: user,
			DelSeq: []*pbx.SeqRange{{Low: 3, Hi: 7}, {Low: 9}}}}
		m := pbCliDeserialize(pkt)
		verifAssert(m != nil && m.Del != nil, "del-deserialized")
		want := ""
		if w < len(verifJSONDelWhat) {
			want = verifJSONDelWhat[w]
		}
		verifAssert(m.Del.What == want, "del-what-as-in-json")
		verifAssert(m.Del.Id == id && m.Del.Topic == topic && m.Del.Hard == hard && m.Del.User == user, "del-scalars-as-in-json")
		verifAssert(len(m.Del.DelSeq) == 2 && m.Del.DelSeq[0].LowId == 3 && m.Del.DelSeq[0].HiId == 7 &&
			m.Del.DelSeq[1].LowId == 9 && m.Del.DelSeq[1].HiId == 0, "del-ranges-as-in-json")
	case 1:
		w := verifChoose("noteWhat", 6)
		e := verifChoose("noteEvent", 9)
		seq := verifNondetI32("seq")
		unread := verifNondetI32("unread")
		pkt.Message = &pbx.ClientMsg_Note{Note: &pbx.ClientNote{Topic: topic, What: pbx.InfoNote(w), Event: pbx.CallEvent(e), SeqId: seq, Unread: unread}}
		m := pbCliDeserialize(pkt)
		verifAssert(m != nil && m.Note != nil, "note-deserialized")
		wantW, wantE := "", ""
		if w < len(verifJSONNoteWhat) {
			wantW = verifJSONNoteWhat[w]
		}
		if e < len(verifJSONCallEvent) {
			wantE = verifJSONCallEvent[e]
		}
		verifAssert(m.Note.What == wantW, "note-what-as-in-json")
		verifAssert(m.Note.Event == wantE, "note-event-as-in-json")
		verifAssert(m.Note.Topic == topic && m.Note.SeqId == int(seq) && m.Note.Unread == int(unread), "note-scalars-as-in-json")
	case 2:
		unsub := verifNondetBool("unsub")
		pkt.Message = &pbx.ClientMsg_Leave{Leave: &pbx.ClientLeave{Id: id, Topic: topic, Unsub: unsub}}
		m := pbCliDeserialize(pkt)
		verifAssert(m != nil && m.Leave != nil && m.Leave.Id == id && m.Leave.Topic == topic && m.Leave.Unsub == unsub, "leave-as-in-json")
	case 3:
		// {hi}
		ver := verifNondetString("ver", 0, 2, "01.")
		bg := verifNondetBool("background")
		pkt.Message = &pbx.ClientMsg_Hi{Hi: &pbx.ClientHi{Id: id, Ver: ver, UserAgent: "ua", DeviceId: "dev", Lang: "en", Platform: "web", Background: bg}}
		m := pbCliDeserialize(pkt)
		verifAssert(m != nil && m.Hi != nil && m.Hi.Id == id && m.Hi.Version == ver && m.Hi.UserAgent == "ua" && m.Hi.DeviceID == "dev" &&
			m.Hi.Lang == "en" && m.Hi.Platform == "web" && m.Hi.Background == bg, "hi-as-in-json")
	case 4:
		// {acc}: the requested authentication level
		lvl := []pbx.AuthLevel{pbx.AuthLevel_NONE, pbx.AuthLevel_ANON, pbx.AuthLevel_AUTH, pbx.AuthLevel_ROOT}[verifChoose("accLevel", 4)]
		pkt.Message = &pbx.ClientMsg_Acc{Acc: &pbx.ClientAcc{Id: id, UserId: topic, Scheme: "basic", Secret: []byte("s"), Login: verifNondetBool("login"),
			Tags: []string{"t1"}, State: "ok", AuthLevel: lvl, TmpScheme: "code", TmpSecret: []byte("c")}}
		m := pbCliDeserialize(pkt)
		verifAssert(m != nil && m.Acc != nil, "acc-deserialized")
		verifAssert(auth.ParseAuthLevel(m.Acc.AuthLevel) == auth.Level(lvl), "acc-auth-level-as-in-json")
		verifAssert(m.Acc.Id == id && m.Acc.User == topic && m.Acc.Scheme == "basic" && string(m.Acc.Secret) == "s" && m.Acc.Login == pkt.GetAcc().Login &&
			len(m.Acc.Tags) == 1 && m.Acc.Tags[0] == "t1" && m.Acc.State == "ok" && m.Acc.TmpScheme == "code" && string(m.Acc.TmpSecret) == "c", "acc-scalars-as-in-json")
	}
	verifReach("end")
}

// The "extra" part of any request: attachments, on-behalf-of user and level. Session.dispatch interprets the level
// with auth.ParseAuthLevel; the JSON spelling of level L parses to L, so must the gRPC one.
func Harness_C20_grpc_request_extra() {
	lvl := []pbx.AuthLevel{pbx.AuthLevel_NONE, pbx.AuthLevel_ANON, pbx.AuthLevel_AUTH, pbx.AuthLevel_ROOT}[verifChoose("level", 4)]
	obo := verifNondetString("obo", 0, 3, "usrA")
	pkt := &pbx.ClientMsg{Message: &pbx.ClientMsg_Leave{Leave: &pbx.ClientLeave{Id: "1", Topic: "me"}},
		Extra: &pbx.ClientExtra{OnBehalfOf: obo, AuthLevel: lvl, Attachments: []string{"/v0/file/s/a.jpg"}}}
	m := pbCliDeserialize(pkt)
	verifAssert(m != nil && m.Extra != nil, "extra-deserialized")
	verifAssert(m.Extra.AsUser == obo, "extra-user-as-in-json")
	verifAssert(auth.ParseAuthLevel(m.Extra.AuthLevel) == auth.Level(lvl), "extra-auth-level-as-in-json")
	verifAssert(len(m.Extra.Attachments) == 1 && m.Extra.Attachments[0] == "/v0/file/s/a.jpg", "extra-attachments-as-in-json")
	// and back: what the server itself forwards (plugins, cluster) names the same level
	back := pbCliSerialize(&ClientComMessage{Leave: &MsgClientLeave{Id: "1", Topic: "me"}, AuthLvl: int(auth.Level(lvl)),
		Extra: &MsgClientExtra{AsUser: obo}})
	verifAssert(back != nil && back.GetExtra() != nil && back.GetExtra().GetAuthLevel() == lvl && back.GetExtra().GetOnBehalfOf() == obo, "extra-forwarded-with-the-same-level")
	verifReach("end")
}

// The description part of {set}, {sub set=...} and {acc}: whichever of default access, public, trusted and private
// the client sent - alone or together - arrives, and nothing else does (a request carrying only "trusted" is as
// good as any other).
func Harness_C20_grpc_request_desc() {
	hasDef, hasPub, hasTr, hasPriv := verifNondetBool("defacs"), verifNondetBool("public"), verifNondetBool("trusted"), verifNondetBool("private")
	d := &pbx.SetDesc{}
	if hasDef {
		d.DefaultAcs = &pbx.DefaultAcsMode{Auth: "JRWPS", Anon: "N"}
	}
	if hasPub {
		d.Public = []byte(`"pub"`)
	}
	if hasTr {
		d.Trusted = []byte(`"tr"`)
	}
	if hasPriv {
		d.Private = []byte(`"priv"`)
	}
	var got *MsgSetDesc
	switch verifChoose("carrier", 3) {
	case 0:
		m := pbCliDeserialize(&pbx.ClientMsg{Message: &pbx.ClientMsg_Set{Set: &pbx.ClientSet{Id: "1", Topic: "me", Query: &pbx.SetQuery{Desc: d}}}})
		verifAssert(m != nil && m.Set != nil, "set-deserialized")
		got = m.Set.Desc
	case 1:
		m := pbCliDeserialize(&pbx.ClientMsg{Message: &pbx.ClientMsg_Sub{Sub: &pbx.ClientSub{Id: "1", Topic: "new", SetQuery: &pbx.SetQuery{Desc: d}}}})
		verifAssert(m != nil && m.Sub != nil, "sub-deserialized")
		if m.Sub.Set != nil {
			got = m.Sub.Set.Desc
		}
	case 2:
		m := pbCliDeserialize(&pbx.ClientMsg{Message: &pbx.ClientMsg_Acc{Acc: &pbx.ClientAcc{Id: "1", UserId: "new", Desc: d}}})
		verifAssert(m != nil && m.Acc != nil, "acc-deserialized")
		got = m.Acc.Desc
	}
	any := hasDef || hasPub || hasTr || hasPriv
	verifAssert((got != nil) == any, "description-arrives-iff-something-was-sent")
	if got != nil {
		verifAssert((got.DefaultAcs != nil) == hasDef && (got.Public != nil) == hasPub && (got.Trusted != nil) == hasTr && (got.Private != nil) == hasPriv, "each-description-field-arrives-iff-sent")
		if hasDef {
			verifAssert(got.DefaultAcs.Auth == "JRWPS" && got.DefaultAcs.Anon == "N", "default-access-as-in-json")
		}
	}
	verifReach("end")
}
