//go:build verif

package main

import (
	"github.com/tinode/chat/server/auth"
	"github.com/tinode/chat/server/store/types"
)

// C05 (notification path): a party that tracks a user's permissions only from the change
// notifications built by Topic.notifySubChange (a cluster proxy applying them with
// updateAcsFromPresMsg, the user's other sessions) ends up with exactly the new permissions.

func harnessC05Notify(bits, base types.AccessMode) {
	fx := verifNewTopic(verifKindGrp, 2)
	t := fx.topic
	u := fx.uids[1]
	pick := func(name string) types.AccessMode {
		return base | (types.AccessMode(verifNondetU8(name)) & bits)
	}
	oldWant, oldGiven := pick("oldWant"), pick("oldGiven")
	newWant, newGiven := pick("newWant"), pick("newGiven")
	verifAssume(oldWant != newWant || oldGiven != newGiven)
	// the authoritative topic already holds the new modes when it notifies
	pud := t.perUser[u]
	pud.modeWant, pud.modeGiven = newWant, newGiven
	t.perUser[u] = pud
	// a session of the affected user attached to the topic, and an admin session
	su := verifNewSession("sid-u", u, auth.LevelAuth, 32)
	fx.attach(su, u, false)
	// the replica knows the old modes - or, for somebody who subscribes only now (old modes "none"), has no record
	// of the user at all
	replica := &Topic{name: t.name, cat: types.TopicCatGrp, isProxy: true,
		perUser: map[types.Uid]perUserData{u: {modeWant: oldWant, modeGiven: oldGiven}}}
	if oldWant == types.ModeNone && oldGiven == types.ModeNone && verifNondetBool("newSubscriberUnknownToTheReplica") {
		replica.perUser = map[types.Uid]perUserData{}
	}
	sessionView := perUserData{modeWant: oldWant, modeGiven: oldGiven}

	t.notifySubChange(u, fx.uids[0], false, oldWant, oldGiven, newWant, newGiven, "")

	// the proxy applies the {pres acs} the master routes to the topic itself
	applied := 0
	for _, m := range verifDrainHub(fx.hub) {
		if m.Pres != nil && m.Pres.What == "acs" && m.RcptTo == t.name && m.Pres.Acs != nil {
			replica.updateAcsFromPresMsg(m.Pres)
			applied++
		}
	}
	verifAssert(applied == 1, "one-acs-notification-for-the-topic")
	r := replica.perUser[u]
	verifAssert(r.modeWant == newWant, "replica-requested-mode-equals-the-topics")
	verifAssert(r.modeGiven == newGiven, "replica-granted-mode-equals-the-topics")
	// the user's attached session gets the same deltas directly
	got := 0
	for _, m := range verifDrainSend(su) {
		if m != nil && m.Pres != nil && m.Pres.What == "acs" && m.Pres.Acs != nil {
			got++
			e1 := sessionView.modeWant.ApplyMutation(m.Pres.Acs.Want)
			e2 := sessionView.modeGiven.ApplyMutation(m.Pres.Acs.Given)
			verifAssert(e1 == nil && e2 == nil, "session-can-apply-the-delta")
		}
	}
	verifAssert(got == 1, "one-acs-notification-for-the-users-session")
	verifAssert(sessionView.modeWant == newWant && sessionView.modeGiven == newGiven, "session-view-equals-the-topics")
	verifReach("end")
}

func Harness_C05_notify_2bits() { harnessC05Notify(types.ModePres|types.ModeRead, types.ModeJoin) }
func Harness_C05_notify_2bits_from_none() { harnessC05Notify(types.ModePres|types.ModeRead, types.ModeNone) }
func Harness_C05_notify_3bits() { harnessC05Notify(types.ModePres|types.ModeRead|types.ModeWrite, types.ModeJoin) }
