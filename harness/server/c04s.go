//go:build verif

package main

import (
	"github.com/tinode/chat/server/auth"
	"github.com/tinode/chat/server/store/types"
)

// C04 (handler part): {del msg} hides exactly the union of the requested ranges, clipped to
// existing ids, for the requester only when soft and for everybody when hard.

func verifWantDeleted(lo, hi, lastID, x int) bool {
	// a range with no upper bound or with hi == low means the single id low; clipped to [1, lastID]
	if x < 1 || x > lastID {
		return false
	}
	if hi == 0 || hi == lo {
		return x == lo
	}
	return lo <= x && x < hi
}

func harnessC04DelMsg(n int) {
	fx := verifNewTopic(verifKindGrp, 2)
	t := fx.topic
	t.lastID = verifSeq("lastID")
	t.delID = verifSeq("delID")
	verifAssume(t.delID < 1<<30)
	u := fx.uids[1]
	pud := t.perUser[u]
	pud.modeWant, pud.modeGiven = verifMode("want"), verifMode("given")
	t.perUser[u] = pud
	sess := verifNewSession("sid-u", u, auth.LevelAuth, 32)
	fx.attach(sess, u, false)
	hard := verifNondetBool("hard")
	var req []MsgDelRange
	for i := 0; i < n; i++ {
		lo, hi := verifNondetInt("low"), verifNondetInt("hi")
		verifAssume(lo > -4 && lo < 1<<31 && hi > -4 && hi < 1<<31)
		req = append(req, MsgDelRange{LowId: lo, HiId: hi})
	}
	x := verifNondetInt("x")
	verifAssume(x >= 1 && x <= t.lastID)
	oldDel := t.delID
	msg := &ClientComMessage{Id: "d1", AsUser: u.UserId(), AuthLvl: int(auth.LevelAuth), Original: t.name, RcptTo: t.name,
		Timestamp: types.TimeNow(), sess: sess, init: true, MetaWhat: constMsgDelMsg,
		Del: &MsgClientDel{Id: "d1", Topic: t.name, What: "msg", Hard: hard, DelSeq: req}}
	t.handleMeta(msg)
	replies := verifDrainSend(sess)
	mode := pud.modeWant & pud.modeGiven
	ok := !verifIsError(replies)
	log := fx.store.dellog
	if !mode.IsReader() && !mode.IsDeleter() {
		verifAssert(!ok && len(log) == 0, "deleting-requires-read-permission")
		verifAssert(t.delID == oldDel, "refused-delete-consumes-no-transaction-number")
		verifReach("end")
		return
	}
	if !ok {
		verifAssert(len(log) == 0 && t.delID == oldDel, "refused-delete-has-no-effect")
		verifReach("end")
		return
	}
	verifAssert(len(log) == 1, "one-deletion-record")
	if len(log) != 1 {
		return
	}
	rec := log[0]
	verifAssert(rec.DelId == oldDel+1 && t.delID == oldDel+1, "next-delete-transaction-number")
	if hard && mode.IsDeleter() {
		verifAssert(rec.DeletedFor == types.ZeroUid.String(), "hard-delete-is-for-everyone")
	} else {
		verifAssert(rec.DeletedFor == u.String(), "without-delete-permission-or-soft-only-for-the-requester")
	}
	want := false
	for _, r := range req {
		a := verifWantDeleted(r.LowId, r.HiId, t.lastID, x)
		want = want || a
	}
	got := false
	for _, r := range rec.SeqIdRanges {
		hi := r.Hi
		if hi == 0 {
			hi = r.Low + 1
		}
		a := r.Low <= x && x < hi
		got = got || a
	}
	if want {
		verifAssert(got, "every-requested-existing-id-is-deleted")
	} else {
		verifAssert(!got, "no-id-outside-the-requested-union-is-deleted")
	}
	verifReach("end")
}

func Harness_C04_delmsg_1() { harnessC04DelMsg(1) }
func Harness_C04_delmsg_2() { harnessC04DelMsg(2) }
