//go:build verif

package main

import (
	"github.com/tinode/chat/server/auth"
	"github.com/tinode/chat/server/store"
	"github.com/tinode/chat/server/store/types"
)

// C13 / C11 (account management through the REAL handlers): {acc} updates, {del user}, {del cred} from every
// authentication state with pooled field values - no shape panics, every request is answered with its id, and
// an unauthenticated session or a non-root session aiming at somebody else's account changes nothing.
func Harness_C13_account_requests() {
	verifNewStore()
	verifInitGlobals()
	store.Devices = verifDevices{}
	verifInstallStoreObj(&verifAuthOutcome{uid: 5, level: auth.LevelAuth})
	globals.authValidators = nil
	globals.validators = nil
	emailV := &verifValidator{}
	verifValidators = map[string]*verifValidator{"email": emailV}
	s := verifNewDispatchSession("sid-1")
	s.ver = minSupportedVersionValue
	switch verifChoose("authState", 3) {
	case 1:
		s.uid, s.authLvl = 5, auth.LevelAuth
	case 2:
		s.uid, s.authLvl = 5, auth.LevelRoot
	}
	for _, u := range []types.Uid{5, 6} {
		usr := &types.User{State: types.StateOK}
		usr.SetUid(u)
		verifStore.users[u] = usr
	}
	other := types.Uid(6).UserId()
	target := []string{"", types.Uid(5).UserId(), other, "junk", "usr"}[verifChoose("target", 5)]
	msg := &ClientComMessage{Id: "r1", Timestamp: types.TimeNow()}
	switch verifChoose("kind", 4) {
	case 0: // {acc} update
		acc := &MsgClientAcc{Id: "r1", User: target}
		switch verifChoose("what", 5) {
		case 0:
			acc.Scheme, acc.Secret = []string{"basic", "zzz", "token"}[verifChoose("scheme", 3)], []byte("alice:pwd")
		case 1:
			acc.Cred = []MsgCredClient{{Method: []string{"email", "junk", ""}[verifChoose("method", 3)], Value: []string{"a@b.c", "bad", "dup"}[verifChoose("credValue", 3)]}}
		case 2:
			acc.State = []string{"ok", "suspended", "deleted", "junk"}[verifChoose("state", 4)]
		case 3:
			acc.AuthLevel = []string{"", "auth", "root", "junk"}[verifChoose("level", 4)]
			acc.Cred = []MsgCredClient{{Method: "email", Value: "a@b.c", Response: "123456"}}
		case 4:
		}
		msg.Acc = acc
	case 1:
		msg.Del = &MsgClientDel{Id: "r1", What: "user", User: target, Hard: verifNondetBool("hard")}
	case 2:
		del := &MsgClientDel{Id: "r1", Topic: "me", What: "cred"}
		if verifNondetBool("withCred") {
			del.Cred = &MsgCredClient{Method: []string{"email", "", "junk"}[verifChoose("method", 3)], Value: []string{"", "a@b.c"}[verifChoose("value", 2)]}
		}
		msg.Del = del
	case 3:
		msg.Set = &MsgClientSet{Id: "r1", Topic: "me", MsgSetQuery: MsgSetQuery{Cred: &MsgCredClient{Method: []string{"email", "", "junk"}[verifChoose("method", 3)], Value: "a@b.c", Response: []string{"", "123456"}[verifChoose("resp", 2)]}}}
	}
	uid0, lvl0 := s.uid, s.authLvl
	nUsers := len(verifStore.users)
	// {del user} hands the user's live topics to the hub and waits for its confirmation: the handler parks there
	// (the hub side is Hub.stopTopicsForUser, checked under C14)
	if verifRunUntilBlocked(func() { s.dispatch(msg) }) {
		verifAssert(msg.Del != nil && msg.Del.What == "user" && uid0 != 0, "only-account-deletion-waits-for-the-hub")
		verifAssert(len(globals.hub.unreg) == 1, "account-deletion-hands-the-users-topics-to-the-hub")
		verifReach("end")
		return
	}
	verifHubDrain(globals.hub)
	n, lastCode := 0, 0
	for _, r := range verifDrainSend(s) {
		if r != nil && r.Ctrl != nil {
			lastCode = r.Ctrl.Code
			verifAssert(r.Ctrl.Id == "r1" || r.Ctrl.Id == "", "reply-echoes-request-id")
			n++
		}
	}
	verifAssert(n >= 1, "account-request-answered")
	if msg.Acc != nil && emailV.requests > 0 && len(msg.Acc.Cred) == 1 && (msg.Acc.Cred[0].Value == "bad" || msg.Acc.Cred[0].Value == "dup") {
		// the validator refused the credential: the client is told so
		verifAssert(lastCode >= 400, "refused-credential-update-answered-with-an-error")
	}
	verifAssert(s.authLvl == lvl0 && (s.uid == uid0 || msg.Del != nil && msg.Del.What == "user"), "account-requests-never-raise-the-sessions-authentication")
	if uid0 == 0 {
		verifAssert(len(verifStore.calls) == 0 && len(verifStore.users) == nUsers, "unauthenticated-session-changes-no-account")
	}
	verifReach("end")
}
