//go:build verif

package main

import (
	"crypto/hmac"
	"crypto/md5"
	"encoding/base64"
	"hash"
	"strconv"
)

// C12 (API key part). The MAC is an uninterpreted function of (key, message).

type verifMacT struct {
	key []byte
	buf []byte
	n   int
}

func (m *verifMacT) Write(p []byte) (int, error) { m.buf = append(m.buf, p...); return len(p), nil }
func (m *verifMacT) Sum(b []byte) []byte {
	args := make([]uint64, 0, len(m.key)+len(m.buf)+1)
	args = append(args, uint64(len(m.key)))
	for _, c := range m.key {
		args = append(args, uint64(c))
	}
	for _, c := range m.buf {
		args = append(args, uint64(c))
	}
	out := make([]byte, m.n)
	for i := range out {
		out[i] = byte(verifUF("mac_byte"+strconv.Itoa(i), 8, args...))
	}
	return append(b, out...)
}
func (m *verifMacT) Reset()         { m.buf = nil }
func (m *verifMacT) Size() int      { return m.n }
func (m *verifMacT) BlockSize() int { return 64 }

//verif:override crypto/hmac.New
func verifHmacNew(h func() hash.Hash, key []byte) hash.Hash {
	return &verifMacT{key: append([]byte{}, key...), n: 16}
}

const verifB64URLAlphabet = "ABCDEFGHIJKLMNOPQRSTUVWXYZabcdefghijklmnopqrstuvwxyz0123456789-_"

func harnessC12APIKey(tail int) {
	globals.apiKeySalt = []byte("0123456789abcdef0123456789abcdef")
	s := verifNondetString("head", 32-tail, 32-tail, verifB64URLAlphabet) + verifNondetString("tail", tail, tail, "")
	if !verifIsSymbolicEngine() {
		s = verifNativeResignKey(s)
	}
	valid, root := checkAPIKey(s)
	if valid {
		data, err := base64.URLEncoding.DecodeString(s)
		verifAssert(err == nil && len(data) == 24, "valid-key-decodes-to-24-bytes")
		if err == nil && len(data) == 24 {
			verifAssert(data[0] == 1, "version-byte-is-1")
			mac := &verifMacT{key: globals.apiKeySalt, n: 16}
			mac.Write(data[:8])
			sig := mac.Sum(nil)
			for i := 0; i < 16; i++ {
				verifAssert(data[8+i] == sig[i], "every-signature-byte-matches")
			}
			verifAssert(root == (data[7] == 1), "root-flag-is-the-signed-byte")
		}
	} else {
		verifAssert(!root, "invalid-key-is-never-root")
	}
	verifReach("end")
}

// Native replay: the solver's key carries a signature of the *uninterpreted* MAC. If that signature is the
// model's MAC of the key's data under the server's salt - or under the empty salt, the other key a faulty
// checker might try - replace it by the real HMAC-MD5 under the same salt, so that the real code is shown the
// same situation. The model's MAC values come from the replay vector in the order the engine applied them.
func verifNativeResignKey(s string) string {
	data, err := base64.URLEncoding.DecodeString(s)
	if err != nil || len(data) != 24 {
		return s
	}
	for _, salt := range [][]byte{globals.apiKeySalt, nil} {
		m := &verifMacT{key: salt, n: 16}
		m.Write(data[:8])
		if string(m.Sum(nil)) == string(data[8:]) {
			h := hmac.New(md5.New, salt)
			h.Write(data[:8])
			copy(data[8:], h.Sum(nil))
			return base64.URLEncoding.EncodeToString(data)
		}
	}
	return s
}

func Harness_C12_apikey_32()       { harnessC12APIKey(0) }
func Harness_C12_apikey_32_tail2() { harnessC12APIKey(2) }

func Harness_C12_apikey_wrong_len() {
	globals.apiKeySalt = []byte("0123456789abcdef0123456789abcdef")
	n := verifChoose("len", 32)
	s := verifNondetString("key", n, n, verifB64URLAlphabet)
	valid, root := checkAPIKey(s)
	verifAssert(!valid && !root, "short-key-refused")
	verifReach("end")
}
