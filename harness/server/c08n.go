//go:build verif

package main

import (
	"github.com/tinode/chat/server/auth"
	"github.com/tinode/chat/server/store/types"
)

// C08 (marks part) — the answer to {get desc} is the same whether the topic stayed in memory or was
// reloaded from the store, before and after one arbitrary {note}.
//
// Pre-state: cached marks (read, recvC) and stored marks (read, recvS) that are observationally equal,
// i.e. max(recvC, read) == max(recvS, read) — the relation the real handlers maintain (a read note that
// overtakes the received mark moves the cached received mark but writes only ReadSeqId).

type verifDescMarks struct {
	ok                   bool
	seq, read, recv, del int
}

func verifGetDescMarks(t *Topic, s *Session, u types.Uid) verifDescMarks {
	get := &ClientComMessage{Id: "g1", AsUser: u.UserId(), AuthLvl: int(auth.LevelAuth), Original: t.name, RcptTo: t.name,
		Timestamp: types.TimeNow(), sess: s, init: true, MetaWhat: constMsgMetaDesc,
		Get: &MsgClientGet{Id: "g1", Topic: t.name, MsgGetQuery: MsgGetQuery{What: "desc"}}}
	t.handleMeta(get)
	var out verifDescMarks
	for _, r := range verifDrainSend(s) {
		if r != nil && r.Meta != nil && r.Meta.Desc != nil {
			d := r.Meta.Desc
			out = verifDescMarks{ok: true, seq: d.SeqId, read: d.ReadSeqId, recv: d.RecvSeqId, del: d.DelId}
		}
	}
	return out
}

func Harness_C08_note_desc_reload() {
	fx := verifNewTopic(verifKindGrp, 2)
	t := fx.topic
	t.lastID = verifSeq("lastID")
	fx.store.topics[t.name].SeqId = t.lastID
	fx.store.topics[t.name].Access = types.DefaultAccess{Auth: t.accessAuth, Anon: t.accessAnon}
	u := fx.uids[1]
	pud := t.perUser[u]
	pud.modeWant, pud.modeGiven = types.ModeCPublic, types.ModeCPublic
	pud.readID, pud.recvID = verifSeq("read"), verifSeq("recvCached")
	recvS := verifSeq("recvStored")
	verifAssume(pud.readID <= t.lastID && pud.recvID <= t.lastID && recvS <= t.lastID)
	verifAssume(max(pud.recvID, pud.readID) == max(recvS, pud.readID))
	t.perUser[u] = pud
	sub := fx.store.subs[verifSubKey(t.name, u)]
	sub.ModeWant, sub.ModeGiven = pud.modeWant, pud.modeGiven
	sub.ReadSeqId, sub.RecvSeqId = pud.readID, recvS
	for _, x := range fx.uids {
		fx.store.users[x] = &types.User{State: types.StateOK, Access: types.DefaultAccess{Auth: types.ModeCAuth}}
	}
	s := verifNewSession("sid-a", u, auth.LevelAuth, 16)
	fx.attach(s, u, false)

	if verifNondetBool("withNote") {
		fx.store.failAt = verifChoose("failAt", 2) - 1
		what := []string{"read", "recv"}[verifChoose("what", 2)]
		msg := &ClientComMessage{
			Note:      &MsgClientNote{Topic: t.name, What: what, SeqId: verifNondetInt("seq")},
			AsUser:    u.UserId(),
			AuthLvl:   int(auth.LevelAuth),
			Original:  t.name,
			RcptTo:    t.name,
			Timestamp: types.TimeNow(),
			sess:      s,
			init:      true,
		}
		t.handleNoteBroadcast(msg)
		fx.store.failAt = -1
		verifDrainSend(s)
	}

	live := verifGetDescMarks(t, s, u)
	verifAssert(live.ok, "live-description-answered")

	t2, err := verifReload(t.name)
	verifAssert(err == nil, "reload-works")
	t2.status = topicStatusLoaded
	s2 := verifNewSession("sid-b", u, auth.LevelAuth, 16)
	fx.topic = t2
	fx.attach(s2, u, false)
	re := verifGetDescMarks(t2, s2, u)
	verifAssert(re.ok, "reloaded-description-answered")
	verifAssert(live.seq == re.seq && live.del == re.del, "reload-equals-live: description counters")
	verifAssert(live.read == re.read && live.recv == re.recv, "reload-equals-live: description marks")
	verifReach("end")
}

// A member's last session leaves (plain {leave}, or the connection drops) while the topic stays loaded: the
// member stays a member - its cached record is kept and still equals the stored one, whether or not the group is
// channel-enabled (only channel READERS, who subscribe by the chn spelling, are not cached permanently).
func Harness_C08_leave_keeps_the_member() {
	kind := []int{verifKindGrp, verifKindChn}[verifChoose("kind", 2)]
	fx := verifNewTopic(kind, 2)
	t := fx.topic
	verifNotified = nil
	t.lastID = verifSeq("lastID")
	st := fx.store.topics[t.name]
	st.SeqId, st.Access, st.UseBt = t.lastID, types.DefaultAccess{Auth: t.accessAuth, Anon: t.accessAnon}, kind == verifKindChn
	for _, u := range fx.uids {
		fx.store.users[u] = &types.User{State: types.StateOK, Access: types.DefaultAccess{Auth: types.ModeCAuth}}
	}
	// exactly one owner (the fixture starts everybody with full modes)
	m1 := t.perUser[fx.uids[1]]
	m1.modeWant, m1.modeGiven = types.ModeCPublic, types.ModeCPublic
	t.perUser[fx.uids[1]] = m1
	r1 := fx.store.subs[verifSubKey(t.name, fx.uids[1])]
	r1.ModeWant, r1.ModeGiven = types.ModeCPublic, types.ModeCPublic
	who := verifChoose("who", 2)
	u := fx.uids[who]
	pud := t.perUser[u]
	if who == 1 {
		pud.modeWant = types.ModeCPublic &^ types.ModePres // stored state that differs from the defaults
	}
	pud.readID, pud.recvID, pud.private = 1, 2, "note"
	verifAssume(t.lastID >= 2)
	t.perUser[u] = pud
	row := fx.store.subs[verifSubKey(t.name, u)]
	row.ModeWant, row.ModeGiven, row.ReadSeqId, row.RecvSeqId, row.Private = pud.modeWant, pud.modeGiven, 1, 2, "note"
	s := verifNewSession("sid-a", u, auth.LevelAuth, 16)
	s.inflightReqs = newBoundedWaitGroup(8)
	fx.attach(s, u, false)
	users := fx.uids
	pre := verifImageOfTopic(t)
	if verifNondetBool("connectionDropped") {
		t.unregisterSession(&ClientComMessage{sess: s, init: false})
	} else {
		s.inflightReqs.Add(1)
		t.unregisterSession(&ClientComMessage{Id: "l1", AsUser: u.UserId(), AuthLvl: int(auth.LevelAuth), Original: t.name, RcptTo: t.name,
			Timestamp: types.TimeNow(), sess: s, init: true, Leave: &MsgClientLeave{Id: "l1", Topic: t.name}})
	}
	_, still := t.sessions[s]
	verifAssert(!still, "session-detached")
	live := verifImageOfTopic(t)
	verifAssertSameImage(pre, live, users, "leaving-changes-nothing-clients-can-query")
	t2, err := verifReload(t.name)
	verifAssert(err == nil, "reload-works")
	verifAssertSameImage(live, verifImageOfTopic(t2), users, "reload-equals-live")
	verifReach("end")
}
