//go:build verif

package main

import (
	"github.com/tinode/chat/server/auth"
	"github.com/tinode/chat/server/store/types"
)

// C08 (marks part) — the answer to {get desc} is the same whether the topic stayed in memory or was
// reloaded from the store, before and after one arbitrary {note}.
//
// Pre-state: cached marks (read, recvC) and stored marks (read, recvS) that are observationally equal,
// i.e. max(recvC, read) == max(recvS, read) — the relation the real handlers maintain (a read note that
// overtakes the received mark moves the cached received mark but writes only ReadSeqId).

type verifDescMarks struct {
	ok                   bool
	seq, read, recv, del int
}

func verifGetDescMarks(t *Topic, s *Session, u types.Uid) verifDescMarks {
	get := &ClientComMessage{Id: "g1", AsUser: u.UserId(), AuthLvl: int(auth.LevelAuth), Original: t.name, RcptTo: t.name,
		Timestamp: types.TimeNow(), sess: s, init: true, MetaWhat: constMsgMetaDesc,
		Get: &MsgClientGet{Id: "g1", Topic: t.name, MsgGetQuery: MsgGetQuery{What: "desc"}}}
	t.handleMeta(get)
	var out verifDescMarks
	for _, r := range verifDrainSend(s) {
		if r != nil && r.Meta != nil && r.Meta.Desc != nil {
			d := r.Meta.Desc
			out = verifDescMarks{ok: true, seq: d.SeqId, read: d.ReadSeqId, recv: d.RecvSeqId, del: d.DelId}
		}
	}
	return out
}

func Harness_C08_note_desc_reload() {
	fx := verifNewTopic(verifKindGrp, 2)
	t := fx.topic
	t.lastID = verifSeq("lastID")
	fx.store.topics[t.name].SeqId = t.lastID
	fx.store.topics[t.name].Access = types.DefaultAccess{Auth: t.accessAuth, Anon: t.accessAnon}
	u := fx.uids[1]
	pud := t.perUser[u]
	pud.modeWant, pud.modeGiven = types.ModeCPublic, types.ModeCPublic
	pud.readID, pud.recvID = verifSeq("read"), verifSeq("recvCached")
	recvS := verifSeq("recvStored")
	verifAssume(pud.readID <= t.lastID && pud.recvID <= t.lastID && recvS <= t.lastID)
	verifAssume(max(pud.recvID, pud.readID) == max(recvS, pud.readID))
	t.perUser[u] = pud
	sub := fx.store.subs[verifSubKey(t.name, u)]
	sub.ModeWant, sub.ModeGiven = pud.modeWant, pud.modeGiven
	sub.ReadSeqId, sub.RecvSeqId = pud.readID, recvS
	for _, x := range fx.uids {
		fx.store.users[x] = &types.User{State: types.StateOK, Access: types.DefaultAccess{Auth: types.ModeCAuth}}
	}
	s := verifNewSession("sid-a", u, auth.LevelAuth, 16)
	fx.attach(s, u, false)

	if verifNondetBool("withNote") {
		fx.store.failAt = verifChoose("failAt", 2) - 1
		what := []string{"read", "recv"}[verifChoose("what", 2)]
		msg := &ClientComMessage{
			Note:      &MsgClientNote{Topic: t.name, What: what, SeqId: verifNondetInt("seq")},
			AsUser:    u.UserId(),
			AuthLvl:   int(auth.LevelAuth),
			Original:  t.name,
			RcptTo:    t.name,
			Timestamp: types.TimeNow(),
			sess:      s,
			init:      true,
		}
		t.handleNoteBroadcast(msg)
		fx.store.failAt = -1
		verifDrainSend(s)
	}

	live := verifGetDescMarks(t, s, u)
	verifAssert(live.ok, "live-description-answered")

	t2, err := verifReload(t.name)
	verifAssert(err == nil, "reload-works")
	t2.status = topicStatusLoaded
	s2 := verifNewSession("sid-b", u, auth.LevelAuth, 16)
	fx.topic = t2
	fx.attach(s2, u, false)
	re := verifGetDescMarks(t2, s2, u)
	verifAssert(re.ok, "reloaded-description-answered")
	verifAssert(live.seq == re.seq && live.del == re.del, "reload-equals-live: description counters")
	verifAssert(live.read == re.read && live.recv == re.recv, "reload-equals-live: description marks")
	verifReach("end")
}
