//go:build verif

package main

import (
	"github.com/tinode/chat/server/auth"
	"github.com/tinode/chat/server/store"
	"github.com/tinode/chat/server/store/types"
)

// ---- a node that can reach no more than half of the configured nodes stops serving: every well-formed client
// request of every kind - handshake and notes included - is refused with "cluster unreachable" and reaches no
// handler, whatever the session's state.
func Harness_C17_partitioned_node_refuses_every_request() {
	c := verifClusterWith(2, 5, "a") // 3 configured nodes
	store.Devices = verifDevices{}
	verifInstallStoreObj(&verifAuthOutcome{uid: 5, level: auth.LevelAuth})
	partitioned := verifNondetBool("partitioned")
	if partitioned {
		c.fo.activeNodes = []string{"a"} // alone: 1 of 3
	}
	s := verifNewDispatchSession("sid-1")
	if verifNondetBool("handshaken") {
		s.ver = minSupportedVersionValue
	}
	if verifNondetBool("loggedIn") {
		s.uid, s.authLvl = 5, auth.LevelAuth
	}
	verifStore.users[5] = &types.User{State: types.StateOK}
	topic := "grpAAAAAAAAAAB"
	msg := &ClientComMessage{Timestamp: types.TimeNow()}
	kind := verifChoose("kind", 10)
	switch kind {
	case 0:
		msg.Hi = &MsgClientHi{Id: "r1", Version: "0.22"}
	case 1:
		msg.Login = &MsgClientLogin{Id: "r1", Scheme: "basic", Secret: []byte("a:b")}
	case 2:
		msg.Acc = &MsgClientAcc{Id: "r1", User: "new", Scheme: "basic", Secret: []byte("a:b")}
	case 3:
		msg.Sub = &MsgClientSub{Id: "r1", Topic: topic}
	case 4:
		msg.Leave = &MsgClientLeave{Id: "r1", Topic: topic}
	case 5:
		msg.Pub = &MsgClientPub{Id: "r1", Topic: topic, Content: "x"}
	case 6:
		msg.Get = &MsgClientGet{Id: "r1", Topic: topic, MsgGetQuery: MsgGetQuery{What: "desc"}}
	case 7:
		msg.Set = &MsgClientSet{Id: "r1", Topic: topic, MsgSetQuery: MsgSetQuery{Desc: &MsgSetDesc{Private: "p"}}}
	case 8:
		msg.Del = &MsgClientDel{Id: "r1", Topic: topic, What: "msg", DelSeq: []MsgDelRange{{LowId: 1, HiId: 2}}}
	case 9:
		msg.Note = &MsgClientNote{Topic: topic, What: "read", SeqId: 3}
	}
	ver0, uid0 := s.ver, s.uid
	s.dispatch(msg)
	replies := verifDrainSend(s)
	if partitioned {
		verifAssert(len(globals.hub.join) == 0 && len(globals.hub.routeCli) == 0 && len(globals.hub.meta) == 0 && len(globals.hub.unreg) == 0,
			"partitioned-node-hands-nothing-to-the-hub")
		verifAssert(s.ver == ver0 && s.uid == uid0, "partitioned-node-changes-no-session-state")
		verifAssert(len(verifStore.calls) == 0, "partitioned-node-touches-no-store")
		for _, r := range replies {
			verifAssert(r != nil && r.Ctrl != nil && r.Ctrl.Code >= 400, "partitioned-node-answers-only-with-errors")
		}
		verifAssert(len(replies) == 1, "partitioned-node-answers-every-request-once")
	}
	verifReach("end")
}
