//go:build verif

package main

// Session-level fixture: fake store.Store (auth handlers, validators), fake devices, and stubs for the
// account-management entry points that the session handlers hand over to.

import (
	"strings"
	"encoding/json"
	"time"

	"github.com/tinode/chat/server/auth"
	adapter "github.com/tinode/chat/server/db"
	"github.com/tinode/chat/server/media"
	"github.com/tinode/chat/server/store"
	"github.com/tinode/chat/server/store/types"
	"github.com/tinode/chat/server/validate"
)

// ---- fake authenticator: outcome chosen by the harness
type verifAuthOutcome struct {
	err       error
	uid       types.Uid
	level     auth.Level
	features  auth.Feature
	state     types.ObjState
	challenge []byte
	addErr    error // what AddRecord answers (nil = accepted)
}

type verifAuthHandler struct {
	name    string
	outcome *verifAuthOutcome
	calls   int
	gens    int
	lastGen *auth.Rec // the record the last token was asked for
}

func (a *verifAuthHandler) Init(jsonconf json.RawMessage, name string) error { return nil }
func (a *verifAuthHandler) IsInitialized() bool                              { return true }
func (a *verifAuthHandler) AddRecord(rec *auth.Rec, secret []byte, remoteAddr string) (*auth.Rec, error) {
	if a.outcome != nil && a.outcome.addErr != nil {
		return nil, a.outcome.addErr
	}
	// like the real authenticators: the new record gets the scheme's level
	rec.AuthLevel = auth.LevelAuth
	return rec, nil
}
func (a *verifAuthHandler) UpdateRecord(rec *auth.Rec, secret []byte, remoteAddr string) (*auth.Rec, error) {
	return rec, nil
}
func (a *verifAuthHandler) Authenticate(secret []byte, remoteAddr string) (*auth.Rec, []byte, error) {
	a.calls++
	o := a.outcome
	if o.err != nil {
		return nil, nil, o.err
	}
	return &auth.Rec{Uid: o.uid, AuthLevel: o.level, Features: o.features, State: o.state}, o.challenge, nil
}
func (a *verifAuthHandler) AsTag(token string) string { return "" }
func (a *verifAuthHandler) IsUnique(secret []byte, remoteAddr string) (bool, error) {
	return true, nil
}
func (a *verifAuthHandler) GenSecret(rec *auth.Rec) ([]byte, time.Time, error) {
	a.gens++
	cp := *rec
	a.lastGen = &cp
	return []byte("secret"), time.Time{}, nil
}
func (a *verifAuthHandler) DelRecords(uid types.Uid) error    { return nil }
func (a *verifAuthHandler) RestrictedTags() ([]string, error) { return nil, nil }
func (a *verifAuthHandler) GetResetParams(uid types.Uid) (map[string]interface{}, error) {
	return nil, nil
}
func (a *verifAuthHandler) GetRealName() string { return a.name }

// ---- fake store.Store
type verifStoreObj struct {
	handlers map[string]*verifAuthHandler
}

func (verifStoreObj) Open(workerId int, jsonconf json.RawMessage) error  { return nil }
func (verifStoreObj) Close() error                                       { return nil }
func (verifStoreObj) IsOpen() bool                                       { return true }
func (verifStoreObj) GetAdapter() adapter.Adapter                        { return nil }
func (verifStoreObj) GetAdapterName() string                             { return "verif" }
func (verifStoreObj) GetAdapterVersion() int                             { return 1 }
func (verifStoreObj) GetDbVersion() int                                  { return 1 }
func (verifStoreObj) InitDb(jsonconf json.RawMessage, reset bool) error  { return nil }
func (verifStoreObj) UpgradeDb(jsonconf json.RawMessage) error           { return nil }
func (verifStoreObj) GetUid() types.Uid {
	verifStore.nextUid++
	return types.Uid(1000 + verifStore.nextUid)
}
func (s verifStoreObj) GetUidString() string       { return s.GetUid().String() }
func (verifStoreObj) DbStats() func() interface{} { return nil }
func (s verifStoreObj) GetAuthNames() []string {
	return []string{"basic", "token"}
}
func (s verifStoreObj) GetAuthHandler(name string) auth.AuthHandler {
	if h, ok := s.handlers[strings.ToLower(name)]; ok {
		return h
	}
	return nil
}
func (s verifStoreObj) GetLogicalAuthHandler(name string) auth.AuthHandler {
	if h, ok := s.handlers[strings.ToLower(name)]; ok {
		return h
	}
	return nil
}
func (verifStoreObj) GetValidator(name string) validate.Validator {
	if v, ok := verifValidators[name]; ok {
		return v
	}
	return nil
}

// credential validators handed out by the fake store (none unless a harness installs them)
var verifValidators map[string]*verifValidator

// verifValidator: a configured credential validator; a request for the value "bad" is refused as malformed,
// the value "dup" as a duplicate, anything else is accepted (validated at once when a response is given).
type verifValidator struct{ requests int }

func (*verifValidator) Init(jsonconf string) error { return nil }
func (*verifValidator) IsInitialized() bool        { return true }
func (*verifValidator) PreCheck(cred string, params map[string]interface{}) (string, error) {
	return "", nil
}
func (v *verifValidator) Request(user types.Uid, cred, lang, resp string, tmpToken []byte) (bool, error) {
	v.requests++
	switch cred {
	case "bad":
		return false, types.ErrMalformed
	case "dup":
		return false, types.ErrDuplicate
	}
	return true, nil
}
func (*verifValidator) ResetSecret(cred, scheme, lang string, tmpToken []byte, params map[string]interface{}) error {
	return nil
}
func (*verifValidator) Check(user types.Uid, resp string) (string, error) { return "", nil }
func (*verifValidator) Remove(user types.Uid, value string) error         { return nil }
func (*verifValidator) Delete(user types.Uid) error                       { return nil }
func (*verifValidator) TempAuthScheme() (string, error)                   { return "", nil }
func (verifStoreObj) GetMediaHandler() media.Handler             { return verifMediaHandler }
func (verifStoreObj) UseMediaHandler(name, config string) error  { return nil }

// hand-overs to the account-management entry points recorded by the stubs of accstub.go (when that file is part of the unit)
var verifAccCalls []string

// media handler handed out by the fake store (nil unless a harness installs one)
var verifMediaHandler media.Handler

func verifInstallStoreObj(outcome *verifAuthOutcome) verifStoreObj {
	so := verifStoreObj{handlers: map[string]*verifAuthHandler{
		"basic": {name: "basic", outcome: outcome},
		"token": {name: "token", outcome: outcome},
		"code":  {name: "code", outcome: outcome},
	}}
	store.Store = so
	return so
}

// ---- fake devices
type verifDevices struct{}

func (verifDevices) Update(uid types.Uid, oldDeviceID string, dev *types.DeviceDef) error {
	return verifStore.mutate("Devices.Update")
}
func (verifDevices) GetAll(uid ...types.Uid) (map[types.Uid][]types.DeviceDef, int, error) {
	return nil, 0, nil
}
func (verifDevices) Delete(uid types.Uid, deviceID string) error {
	return verifStore.mutate("Devices.Delete")
}

// verifNewDispatchSession builds a session as the connection handlers do.
func verifNewDispatchSession(sid string) *Session {
	s := verifNewSession(sid, 0, auth.LevelNone, 32)
	s.ver = 0
	s.inflightReqs = newBoundedWaitGroup(16)
	s.bkgTimer = time.NewTimer(time.Hour)
	s.remoteAddr = "10.0.0.1"
	return s
}
