//go:build verif

package main

import (
	"errors"

	"github.com/tinode/chat/server/auth"
	"github.com/tinode/chat/server/store"
	"github.com/tinode/chat/server/store/types"
)

// C13 (raw frames): Session.dispatchRaw on frames that are not JSON - everything the handler does with the bytes
// before and instead of decoding them (probe frames, truncation for the log, the terminating-session gate) must
// cope with any bytes, in particular around the 512-byte log limit. JSON decoding itself is reflection-driven
// and outside: the frames here are undecodable by construction and the decoder is a stub that says so.

//verif:override encoding/json.Unmarshal
func verifJSONUnmarshalFails(data []byte, v any) error { return errors.New("verif: not JSON") }

func Harness_C13_dispatch_raw() {
	verifNewStore()
	verifInitGlobals()
	store.Devices = verifDevices{}
	verifInstallStoreObj(&verifAuthOutcome{err: types.ErrFailed})
	s := verifNewDispatchSession("sid-1")
	if verifNondetBool("loggedIn") {
		s.ver, s.uid, s.authLvl = minSupportedVersionValue, 5, auth.LevelAuth
	}
	terminating := verifNondetBool("terminating")
	if terminating {
		s.terminating = 1
	}
	// a frame of n bytes: filler 'a', the last four bytes arbitrary (never a valid JSON document)
	n := []int{0, 1, 2, 4, 510, 511, 512, 513, 514, 516, 600}[verifChoose("len", 11)]
	raw := make([]byte, n)
	for i := range raw {
		raw[i] = 'a'
	}
	tail := verifNondetBytes("tail", 4)
	for i := 0; i < 4 && i < n; i++ {
		raw[n-1-i] = tail[i]
	}
	if n >= 2 {
		raw[0] = 'a' // keeps the frame from being the one-byte probe or a JSON document
	}
	s.dispatchRaw(raw)
	replies := len(s.send)
	if !terminating {
		// (nothing is queued to a session that is being torn down)
		verifAssert(replies >= 1, "undecodable-frame-answered")
	}
	verifReach("end")
}
