//go:build verif

package main

import (
	"github.com/tinode/chat/server/auth"
	"github.com/tinode/chat/server/store/types"
)

// C09 — read/recv marks: one inductive step of the topic actor from an arbitrary state
// satisfying INV_marks (0 <= read <= recv <= lastID in cache and store), one arbitrary note.

type verifMarks struct {
	read, recv map[types.Uid]int
	sread, srecv map[types.Uid]int
}

func (fx *verifFixture) snapshotMarks() verifMarks {
	m := verifMarks{read: map[types.Uid]int{}, recv: map[types.Uid]int{}, sread: map[types.Uid]int{}, srecv: map[types.Uid]int{}}
	for _, u := range fx.uids {
		pud := fx.topic.perUser[u]
		m.read[u], m.recv[u] = pud.readID, pud.recvID
		if sub := fx.store.subs[verifSubKey(fx.topic.name, u)]; sub != nil {
			m.sread[u], m.srecv[u] = sub.ReadSeqId, sub.RecvSeqId
		}
	}
	return m
}

func verifNoteWhat() string {
	switch verifChoose("what", 6) {
	case 0:
		return "read"
	case 1:
		return "recv"
	case 2:
		return "kp"
	case 3:
		return "kpa"
	case 4:
		return "data"
	}
	return verifNondetString("what-junk", 0, 3, "")
}

func harnessC09NoteStep(kind int, nUsers int) {
	fx := verifNewTopic(kind, nUsers)
	t := fx.topic
	t.lastID = verifSeq("lastID")
	// arbitrary modes, marks and removal flags satisfying INV_marks; store mirrors cache
	for _, u := range fx.uids {
		pud := t.perUser[u]
		pud.modeWant, pud.modeGiven = verifMode("want"), verifMode("given")
		if kind != verifKindP2P {
			pud.deleted = verifNondetBool("deleted")
		}
		pud.readID, pud.recvID = verifSeq("read"), verifSeq("recv")
		verifAssume(pud.readID <= pud.recvID && pud.recvID <= t.lastID)
		t.perUser[u] = pud
		sub := fx.store.subs[verifSubKey(t.name, u)]
		sub.ReadSeqId, sub.RecvSeqId = pud.readID, pud.recvID
		sub.ModeWant, sub.ModeGiven = pud.modeWant, pud.modeGiven
	}
	// sessions: two of user 0 (origin + sibling), one of user 1, one of user 2; attachment arbitrary
	// except that the originating session is attached (Session.note requires it for non-call notes)
	s0 := verifNewSession("sid-origin", fx.uids[0], auth.LevelAuth, 16)
	s0b := verifNewSession("sid-sibling", fx.uids[0], auth.LevelAuth, 16)
	s1 := verifNewSession("sid-u1", fx.uids[1], auth.LevelAuth, 16)
	u2 := fx.uids[nUsers-1]
	s2 := verifNewSession("sid-u2", u2, auth.LevelAuth, 16)
	fx.attach(s0, fx.uids[0], false)
	att0b, att1, att2 := verifNondetBool("att0b"), verifNondetBool("att1"), verifNondetBool("att2")
	if nUsers < 3 {
		att2 = false
	}
	if att0b {
		fx.attach(s0b, fx.uids[0], false)
	}
	chan1 := false
	if att1 {
		if kind == verifKindChn && nUsers < 3 {
			// with two users the second one may be attached as a channel reader
			chan1 = verifNondetBool("chan1")
		}
		fx.attach(s1, fx.uids[1], chan1)
	}
	chan2 := false
	if att2 {
		if kind == verifKindChn {
			chan2 = verifNondetBool("chan2")
		}
		fx.attach(s2, u2, chan2)
	}
	before := fx.snapshotMarks()
	fx.store.failAt = verifChoose("failAt", 2) - 1 // -1: no fault, 0: the only store write fails

	what := verifNoteWhat()
	seq := verifNondetInt("seq")
	orig := t.original(fx.uids[0])
	msg := &ClientComMessage{
		Note:      &MsgClientNote{Topic: orig, What: what, SeqId: seq},
		AsUser:    fx.uids[0].UserId(),
		AuthLvl:   int(auth.LevelAuth),
		Original:  orig,
		RcptTo:    t.name,
		Timestamp: types.TimeNow(),
		sess:      s0,
		init:      true,
	}
	t.handleNoteBroadcast(msg)

	after := fx.snapshotMarks()
	sender := fx.uids[0]
	pre := before
	// Known-finding class KF-C09-1: a {note what=read} whose seq lies beyond the sender's received mark
	// moves the cached received mark along but writes only ReadSeqId to the store.
	kf1 := what == "read" && seq > pre.recv[sender] && fx.store.failAt < 0
	for _, u := range fx.uids {
		verifAssert(0 <= after.read[u] && after.read[u] <= after.recv[u] && after.recv[u] <= t.lastID, "marks-within-bounds")
		verifAssert(after.read[u] >= pre.read[u] && after.recv[u] >= pre.recv[u], "marks-monotone")
		storedOK := 0 <= after.sread[u] && after.sread[u] <= after.srecv[u] && after.srecv[u] <= t.lastID
		if kf1 && u == sender {
			verifAssert(storedOK, "stored-marks-within-bounds/KF-read-note-beyond-recv")
		} else {
			verifAssert(storedOK, "stored-marks-within-bounds")
		}
		verifAssert(after.sread[u] >= pre.sread[u] && after.srecv[u] >= pre.srecv[u], "stored-marks-monotone")
		if u != sender {
			verifAssert(after.read[u] == pre.read[u] && after.recv[u] == pre.recv[u] &&
				after.sread[u] == pre.sread[u] && after.srecv[u] == pre.srecv[u], "only-senders-marks-move")
		}
	}
	spud := t.perUser[sender]
	smode := spud.modeWant & spud.modeGiven
	moved := after.read[sender] != pre.read[sender] || after.recv[sender] != pre.recv[sender]
	smoved := after.sread[sender] != pre.sread[sender] || after.srecv[sender] != pre.srecv[sender]
	if moved || smoved {
		verifAssert(smode.IsReader() && !spud.deleted, "marks-move-only-with-read-permission")
		verifAssert(what == "read" || what == "recv", "marks-move-only-on-read-recv")
	}
	if kf1 {
		verifAssert(after.read[sender] == after.sread[sender] && after.recv[sender] == after.srecv[sender], "cache-equals-store/KF-read-note-beyond-recv")
	} else {
		verifAssert(after.read[sender] == after.sread[sender] && after.recv[sender] == after.srecv[sender], "cache-equals-store")
	}

	// nothing is ever sent back to the originating session
	verifAssert(len(verifDrainSend(s0)) == 0, "no-reply-to-originator")
	// relays: {info} only to attached sessions of readers, not channel readers, never kp to the typist's sessions
	rel0b, rel1, rel2 := verifDrainSend(s0b), verifDrainSend(s1), verifDrainSend(s2)
	checkRelay := func(msgs []*ServerComMessage, uid types.Uid, attached, isChanSub bool) {
		if len(msgs) == 0 {
			return
		}
		verifAssert(attached, "relay-only-to-attached")
		verifAssert(len(msgs) == 1, "relay-at-most-once")
		m := msgs[0]
		// the sender's other sessions may get a {pres} about the new counts instead of an {info}
		if m.Pres != nil {
			verifAssert(uid == sender, "count-pres-only-to-senders-sessions")
			return
		}
		verifAssert(m.Info != nil, "relay-is-info")
		pud := t.perUser[uid]
		verifAssert((pud.modeWant & pud.modeGiven).IsReader(), "relay-only-to-readers")
		verifAssert(!isChanSub, "relay-never-to-channel-readers")
		verifAssert(m.Info.From == sender.UserId(), "relay-names-true-sender")
		verifAssert(m.Info.Topic == t.original(uid), "relay-names-recipients-topic")
		verifAssert(m.Info.What == what && m.Info.SeqId == seq, "relay-carries-note")
		if what == "kp" {
			verifAssert(uid != sender, "kp-never-to-typists-sessions")
			verifAssert(smode.IsWriter(), "kp-only-from-writers")
		}
		if what == "read" || what == "recv" {
			verifAssert(smode.IsReader(), "receipt-only-from-readers")
		}
	}
	// relays routed to the subscribers' 'me' topics (for their sessions that are not attached here): they must
	// exclude the originating session by id - it may itself be attached to 'me' only - and every session that
	// is attached to this topic and got the relay directly
	for _, m := range verifDrainHub(fx.hub) {
		if m == nil || m.Info == nil {
			continue
		}
		verifAssert(m.SkipSid == s0.sid, "me-relay-never-to-the-originating-session")
		verifAssert(m.Info.SkipTopic == t.name, "me-relay-skips-sessions-attached-to-the-topic")
		verifAssert(m.Info.From == sender.UserId() && m.Info.What == what, "me-relay-carries-the-note")
		if what == "read" || what == "recv" {
			verifAssert(m.Info.SeqId == seq, "me-relay-carries-the-new-mark")
		} else {
			verifAssert(m.Info.SeqId == 0, "me-relay-of-a-typing-note-carries-no-mark")
		}
	}
	checkRelay(rel0b, fx.uids[0], att0b, false)
	checkRelay(rel1, fx.uids[1], att1, chan1)
	checkRelay(rel2, u2, att2, chan2)
	verifReach("end")
}

func Harness_C09_note_step_grp3() { harnessC09NoteStep(verifKindGrp, 3) }
func Harness_C09_note_step_chn3() { harnessC09NoteStep(verifKindChn, 3) }
func Harness_C09_note_step_chn2() { harnessC09NoteStep(verifKindChn, 2) }
func Harness_C09_note_step_p2p() { harnessC09NoteStep(verifKindP2P, 2) }

// The description a user gets reports 0 <= read <= recv <= seq whatever marks the topic was loaded with: the
// store can hold read > recv (known finding KF-read-note-beyond-recv), the reporting site must not pass it on.
func Harness_C09_desc_reports_ordered_marks() {
	fx := verifNewTopic(verifKindGrp, 2)
	t := fx.topic
	t.lastID = verifSeq("lastID")
	u := fx.uids[1]
	pud := t.perUser[u]
	pud.modeWant, pud.modeGiven = types.ModeCPublic, types.ModeCPublic
	pud.readID, pud.recvID = verifSeq("read"), verifSeq("recv")
	verifAssume(pud.readID <= t.lastID && pud.recvID <= t.lastID)
	t.perUser[u] = pud
	for _, x := range fx.uids {
		fx.store.users[x] = &types.User{State: types.StateOK, Access: types.DefaultAccess{Auth: types.ModeCAuth}}
	}
	s := verifNewSession("sid-a", u, auth.LevelAuth, 16)
	fx.attach(s, u, false)
	get := &ClientComMessage{Id: "g1", AsUser: u.UserId(), AuthLvl: int(auth.LevelAuth), Original: t.name, RcptTo: t.name,
		Timestamp: types.TimeNow(), sess: s, init: true, MetaWhat: constMsgMetaDesc,
		Get: &MsgClientGet{Id: "g1", Topic: t.name, MsgGetQuery: MsgGetQuery{What: "desc"}}}
	t.handleMeta(get)
	found := false
	for _, r := range verifDrainSend(s) {
		if r != nil && r.Meta != nil && r.Meta.Desc != nil {
			found = true
			d := r.Meta.Desc
			verifAssert(0 <= d.ReadSeqId && d.ReadSeqId <= d.RecvSeqId && d.RecvSeqId <= d.SeqId, "reported-marks-ordered")
			verifAssert(d.SeqId == t.lastID && d.ReadSeqId == pud.readID, "reported-read-and-seq-are-the-topics")
		}
	}
	verifAssert(found, "description-answered")
	verifReach("end")
}

// ---- the 'me' side of a relayed note: the real broadcastToSessions of a user's 'me' topic given an {info} that
// another topic routed to it (Src names that topic). A typing note never reaches any session of the typist - the
// typist's own 'me' is addressed too (its other devices get receipts that way) - sessions attached to the source
// topic already got the note there and are skipped, and so is the originating session.
func Harness_C09_me_side_relay() {
	u := types.Uid(5)
	peer := types.Uid(6)
	fx := verifNewTopic(verifKindMe, 1)
	fx.uids[0] = u
	t := fx.topic
	t.name = u.UserId()
	t.perUser = map[types.Uid]perUserData{u: {modeWant: types.ModeCSelf, modeGiven: types.ModeCSelf}}
	src := u.P2PName(peer)
	var sess []*Session
	var onSource []bool
	for i := 0; i < 3; i++ {
		s := verifNewSession("sid-"+string(rune('a'+i)), u, auth.LevelAuth, 16)
		t.sessions[s] = perSessionData{uid: u}
		s.subs[t.name] = &Subscription{}
		att := verifNondetBool("attachedToTheSourceTopic")
		if att {
			s.subs[src] = &Subscription{}
		}
		sess = append(sess, s)
		onSource = append(onSource, att)
	}
	what := []string{"kp", "kpa", "read", "recv"}[verifChoose("what", 4)]
	from := []types.Uid{u, peer}[verifChoose("from", 2)]
	skip := []string{"", "sid-a"}[verifChoose("skipSid", 2)]
	msg := &ServerComMessage{Info: &MsgServerInfo{Topic: "me", Src: peer.UserId(), From: from.UserId(), What: what, SeqId: 4, SkipTopic: src},
		RcptTo: t.name, SkipSid: skip}
	t.handleServerMsg(msg)
	for i, s := range sess {
		got := verifDrainSend(s)
		if len(got) == 0 {
			continue
		}
		verifAssert(len(got) == 1 && got[0] != nil && got[0].Info != nil, "relay-delivered-once")
		verifAssert(!onSource[i], "relay-skips-sessions-attached-to-the-source-topic")
		verifAssert(s.sid != skip, "relay-skips-the-originating-session")
		if what == "kp" {
			verifAssert(from != u, "kp-never-to-typists-sessions")
		}
	}
	verifReach("end")
}
