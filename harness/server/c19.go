//go:build verif

package main

import (
	"strings"
	"unicode"
	"unicode/utf8"
)

// C19 — search query parsing against a reference reading of docs/API.md "Query Language",
// and tag normalisation laws.

// verifRewriteTag replaces rewriteTag: the rewrite decision belongs to validators/authenticators
// outside the parser; here every term is valid and kept as is ("r:"+term for terms starting with 'b'
// models a rewritten term).
//
//verif:override github.com/tinode/chat/server.rewriteTag
func verifRewriteTag(orig, countryCode string, withLogin bool) string {
	if len(orig) > 0 && orig[0] == 'b' {
		return "r:" + orig
	}
	return orig
}

type verifTerm struct {
	text string
	or   bool
}

func verifIsBlank(c byte) bool { return c == ' ' || c == '\t' }

// verifRefParse is the reference tokenizer. ok=false means the query is malformed.
func verifRefParseQuery(q string) (terms []verifTerm, ok bool) {
	// trim blanks
	for len(q) > 0 && verifIsBlank(q[0]) {
		q = q[1:]
	}
	for len(q) > 0 && verifIsBlank(q[len(q)-1]) {
		q = q[:len(q)-1]
	}
	i := 0
	commaBefore := false // a comma in the separator run before the next term
	last := -1            // index in terms of the term just before the separator run, -1 if it was empty
	for i < len(q) {
		// separator run
		commas := 0
		for i < len(q) && (verifIsBlank(q[i]) || q[i] == ',') {
			if q[i] == ',' {
				commas++
			}
			i++
		}
		if commas > 1 {
			return nil, false
		}
		if commas == 1 {
			commaBefore = true
			if last >= 0 {
				terms[last].or = true // followed by a comma
			}
		}
		if i >= len(q) {
			break
		}
		// a term
		var text string
		if q[i] == '"' {
			j := i + 1
			for j < len(q) && q[j] != '"' {
				j++
			}
			if j >= len(q) {
				return nil, false // unterminated quote
			}
			text = q[i+1 : j]
			i = j + 1
			if i < len(q) && !verifIsBlank(q[i]) && q[i] != ',' {
				return nil, false // closing quote glued to a word or another quote
			}
		} else {
			j := i
			for j < len(q) && !verifIsBlank(q[j]) && q[j] != ',' && q[j] != '"' {
				j++
			}
			if j < len(q) && q[j] == '"' {
				return nil, false // opening quote glued to a word
			}
			text = q[i:j]
			i = j
		}
		last = -1
		if len(text) > 0 {
			terms = append(terms, verifTerm{text: text, or: commaBefore})
			last = len(terms) - 1
		}
		commaBefore = false
	}
	return terms, true
}

func verifLowerASCII(s string) string {
	b := []byte(s)
	for i := range b {
		if 'A' <= b[i] && b[i] <= 'Z' {
			b[i] += 'a' - 'A'
		}
	}
	return string(b)
}

func harnessC19Query(maxLen int, alphabet string) {
	q := verifNondetString("q", 0, maxLen, alphabet)
	and, or, err := parseSearchQuery(q, "US", true)
	ref, ok := verifRefParseQuery(q)
	if !ok {
		// malformed per the documented language: must be rejected
		kfGlued := false
		for i := 0; i+1 < len(q); i++ {
			if q[i] == '"' && q[i+1] != ' ' && q[i+1] != '\t' && q[i+1] != ',' {
				kfGlued = true
			}
		}
		if kfGlued {
			verifAssert(err != nil, "malformed-query-rejected/quote-followed-by-non-separator")
		} else {
			verifAssert(err != nil, "malformed-query-rejected")
		}
		verifReach("end")
		return
	}
	verifAssert(err == nil, "well-formed-query-accepted")
	if err != nil {
		verifReach("end")
		return
	}
	// expected AND and OR lists
	var wantAnd [][]string
	var wantOr []string
	for _, t := range ref {
		txt := strings.ToLower(t.text)
		rw := verifRewriteTag(txt, "US", true)
		if t.or {
			wantOr = append(wantOr, txt)
			if rw != txt {
				wantOr = append(wantOr, rw)
			}
		} else {
			g := []string{txt}
			if rw != txt {
				g = append(g, rw)
			}
			wantAnd = append(wantAnd, g)
		}
	}
	verifAssert(len(and) == len(wantAnd), "and-term-count")
	verifAssert(len(or) == len(wantOr), "or-term-count")
	if len(and) == len(wantAnd) {
		for i := range and {
			verifAssert(len(and[i]) == len(wantAnd[i]), "and-group-size")
			if len(and[i]) == len(wantAnd[i]) {
				for j := range and[i] {
					verifAssert(and[i][j] == wantAnd[i][j], "and-term-text")
				}
			}
		}
	}
	if len(or) == len(wantOr) {
		for i := range or {
			verifAssert(or[i] == wantOr[i], "or-term-text")
		}
	}
	verifReach("end")
}

func Harness_C19_query_len5() { harnessC19Query(5, "ab \t,\"A") }
func Harness_C19_query_len6() { harnessC19Query(6, "ab ,\"") }
func Harness_C19_query_len7() { harnessC19Query(7, "ab ,\"") }
func Harness_C19_query_len4_utf8() { harnessC19Query(4, "a ,\"\xc3\xa9\xe2") }

// ---- normalizeTags laws on arbitrary short ASCII tags
func harnessC19Normalize(nTags, maxLen int, alphabet string) {
	globals.maxTagCount = 2
	src := make([]string, nTags)
	in := make([]string, nTags)
	for i := range src {
		src[i] = verifNondetString("tag", 0, maxLen, alphabet)
		in[i] = src[i]
	}
	out := normalizeTags(src)
	verifAssert(len(out) <= globals.maxTagCount, "tag-count-limit")
	for i, tg := range out {
		nr := utf8.RuneCountInString(tg)
		verifAssert(nr >= minTagLength && nr <= maxTagLength, "tag-length-in-characters")
		verifAssert(tg[0] != ' ' && tg[len(tg)-1] != ' ', "tag-trimmed")
		for j := 0; j < len(tg); j++ {
			verifAssert(!('A' <= tg[j] && tg[j] <= 'Z'), "tag-lower-case")
		}
		r, _ := utf8.DecodeRuneInString(tg)
		verifAssert(unicode.IsLetter(r) || unicode.IsDigit(r), "tag-starts-with-letter-or-digit")
		if i > 0 {
			verifAssert(out[i-1] < tg, "tags-sorted-and-unique")
		}
	}
	verifReach("end")
}

func Harness_C19_normalize_2x3() { harnessC19Normalize(2, 3, "aB1 -") }
func Harness_C19_normalize_utf8() { harnessC19Normalize(1, 4, "a \xc3\xa9") }
func Harness_C19_normalize_3x2() { harnessC19Normalize(3, 2, "aB1 -") }
