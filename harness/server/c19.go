//go:build verif

package main

import (
	"strings"

	"github.com/tinode/chat/server/auth"
	"github.com/tinode/chat/server/store/types"
	"unicode"
	"unicode/utf8"
)

// C19 — search query parsing against a reference reading of docs/API.md "Query Language",
// and tag normalisation laws.

// verifRewriteTag replaces rewriteTag: the rewrite decision belongs to validators/authenticators
// outside the parser; here every term is valid and kept as is ("r:"+term for terms starting with 'b'
// models a rewritten term).
//
//verif:override github.com/tinode/chat/server.rewriteTag
func verifRewriteTag(orig, countryCode string, withLogin bool) string {
	if len(orig) > 0 && orig[0] == 'b' {
		return "r:" + orig
	}
	return orig
}

type verifTerm struct {
	text string
	or   bool
}

func verifIsBlank(c byte) bool { return c == ' ' || c == '\t' }

// verifRefParse is the reference tokenizer. ok=false means the query is malformed.
func verifRefParseQuery(q string) (terms []verifTerm, ok bool) {
	// trim blanks
	for len(q) > 0 && verifIsBlank(q[0]) {
		q = q[1:]
	}
	for len(q) > 0 && verifIsBlank(q[len(q)-1]) {
		q = q[:len(q)-1]
	}
	i := 0
	commaBefore := false // a comma in the separator run before the next term
	last := -1            // index in terms of the term just before the separator run, -1 if it was empty
	for i < len(q) {
		// separator run
		commas := 0
		for i < len(q) && (verifIsBlank(q[i]) || q[i] == ',') {
			if q[i] == ',' {
				commas++
			}
			i++
		}
		if commas > 1 {
			return nil, false
		}
		if commas == 1 {
			commaBefore = true
			if last >= 0 {
				terms[last].or = true // followed by a comma
			}
		}
		if i >= len(q) {
			break
		}
		// a term
		var text string
		if q[i] == '"' {
			j := i + 1
			for j < len(q) && q[j] != '"' {
				j++
			}
			if j >= len(q) {
				return nil, false // unterminated quote
			}
			text = q[i+1 : j]
			i = j + 1
			if i < len(q) && !verifIsBlank(q[i]) && q[i] != ',' {
				return nil, false // closing quote glued to a word or another quote
			}
		} else {
			j := i
			for j < len(q) && !verifIsBlank(q[j]) && q[j] != ',' && q[j] != '"' {
				j++
			}
			if j < len(q) && q[j] == '"' {
				return nil, false // opening quote glued to a word
			}
			text = q[i:j]
			i = j
		}
		last = -1
		if len(text) > 0 {
			terms = append(terms, verifTerm{text: text, or: commaBefore})
			last = len(terms) - 1
		}
		commaBefore = false
	}
	return terms, true
}

func verifLowerASCII(s string) string {
	b := []byte(s)
	for i := range b {
		if 'A' <= b[i] && b[i] <= 'Z' {
			b[i] += 'a' - 'A'
		}
	}
	return string(b)
}

func harnessC19Query(maxLen int, alphabet string) {
	q := verifNondetString("q", 0, maxLen, alphabet)
	and, or, err := parseSearchQuery(q, "US", true)
	ref, ok := verifRefParseQuery(q)
	if !ok {
		// malformed per the documented language: must be rejected
		kfGlued := false
		for i := 0; i+1 < len(q); i++ {
			if q[i] == '"' && q[i+1] != ' ' && q[i+1] != '\t' && q[i+1] != ',' {
				kfGlued = true
			}
		}
		if kfGlued {
			verifAssert(err != nil, "malformed-query-rejected/quote-followed-by-non-separator")
		} else {
			verifAssert(err != nil, "malformed-query-rejected")
		}
		verifReach("end")
		return
	}
	verifAssert(err == nil, "well-formed-query-accepted")
	if err != nil {
		verifReach("end")
		return
	}
	// expected AND and OR lists
	var wantAnd [][]string
	var wantOr []string
	for _, t := range ref {
		txt := strings.ToLower(t.text)
		rw := verifRewriteTag(txt, "US", true)
		if t.or {
			wantOr = append(wantOr, txt)
			if rw != txt {
				wantOr = append(wantOr, rw)
			}
		} else {
			g := []string{txt}
			if rw != txt {
				g = append(g, rw)
			}
			wantAnd = append(wantAnd, g)
		}
	}
	verifAssert(len(and) == len(wantAnd), "and-term-count")
	verifAssert(len(or) == len(wantOr), "or-term-count")
	if len(and) == len(wantAnd) {
		for i := range and {
			verifAssert(len(and[i]) == len(wantAnd[i]), "and-group-size")
			if len(and[i]) == len(wantAnd[i]) {
				for j := range and[i] {
					verifAssert(and[i][j] == wantAnd[i][j], "and-term-text")
				}
			}
		}
	}
	if len(or) == len(wantOr) {
		for i := range or {
			verifAssert(or[i] == wantOr[i], "or-term-text")
		}
	}
	verifReach("end")
}

func Harness_C19_query_len5() { harnessC19Query(5, "ab \t,\"A") }
func Harness_C19_query_len6() { harnessC19Query(6, "ab ,\"") }
func Harness_C19_query_len7() { harnessC19Query(7, "ab ,\"") }
func Harness_C19_query_len4_utf8() { harnessC19Query(4, "a ,\"\xc3\xa9\xe2") }

// ---- normalizeTags laws on arbitrary short ASCII tags
func harnessC19Normalize(nTags, maxLen int, alphabet string) {
	globals.maxTagCount = 2
	src := make([]string, nTags)
	in := make([]string, nTags)
	for i := range src {
		src[i] = verifNondetString("tag", 0, maxLen, alphabet)
		in[i] = src[i]
	}
	out := normalizeTags(src)
	verifAssert(len(out) <= globals.maxTagCount, "tag-count-limit")
	for i, tg := range out {
		nr := utf8.RuneCountInString(tg)
		verifAssert(nr >= minTagLength && nr <= maxTagLength, "tag-length-in-characters")
		verifAssert(tg[0] != ' ' && tg[len(tg)-1] != ' ', "tag-trimmed")
		for j := 0; j < len(tg); j++ {
			verifAssert(!('A' <= tg[j] && tg[j] <= 'Z'), "tag-lower-case")
		}
		r, _ := utf8.DecodeRuneInString(tg)
		verifAssert(unicode.IsLetter(r) || unicode.IsDigit(r), "tag-starts-with-letter-or-digit")
		if i > 0 {
			verifAssert(out[i-1] < tg, "tags-sorted-and-unique")
		}
	}
	verifReach("end")
}

func Harness_C19_normalize_2x3() { harnessC19Normalize(2, 3, "aB1 -") }
func Harness_C19_normalize_utf8() { harnessC19Normalize(1, 4, "a \xc3\xa9") }
func Harness_C19_normalize_3x2() { harnessC19Normalize(3, 2, "aB1 -") }

// Clients can never add or remove tags in a reserved namespace: {set tags} through the real replySetTags on a
// group topic whose owner keeps the existing reserved tag and adds one arbitrary tag spelled with any mix of
// case and surrounding blanks. Whatever is stored afterwards holds exactly the reserved tags it held before.
func Harness_C19_set_tags_reserved_namespace() {
	fx := verifNewTopic(verifKindGrp, 2)
	t := fx.topic
	globals.immutableTagNS = map[string]bool{"em": true}
	globals.maxTagCount = 8
	t.tags = []string{"em:x1", "plain"}
	fx.store.topics[t.name].Tags = types.StringSlice{"em:x1", "plain"}
	owner := t.owner
	sess := verifNewSession("sid-o", owner, auth.LevelAuth, 16)
	fx.attach(sess, owner, false)
	extra := verifNondetString("tag", 4, 5, "eEm:y ")
	// the list the client sends: the current tags plus one, without the reserved one, only the "delete" marker
	// (how a client clears a list), the marker among other tags, or nothing but the extra tag
	list := []string{"em:x1", "plain", extra}
	switch verifChoose("listShape", 5) {
	case 1:
		list = []string{"plain", extra}
	case 2:
		list = []string{nullValue}
	case 3:
		list = []string{nullValue, extra}
	case 4:
		list = []string{extra}
	}
	msg := &ClientComMessage{Id: "r1", AsUser: owner.UserId(), AuthLvl: int(auth.LevelAuth), Original: t.name, RcptTo: t.name,
		Timestamp: types.TimeNow(), sess: sess, init: true, MetaWhat: constMsgMetaTags,
		Set: &MsgClientSet{Id: "r1", Topic: t.name, MsgSetQuery: MsgSetQuery{Tags: list}}}
	t.handleMeta(msg)
	reserved := func(tags []string) int {
		n := 0
		for _, tg := range tags {
			// a tag of the reserved namespace: prefix, colon, and a non-empty value of tag characters
			// (within this harness's alphabet the value characters are lower-case letters and digits)
			isRes := strings.HasPrefix(tg, "em:") && len(tg) > 3
			for i := 3; isRes && i < len(tg); i++ {
				if !(tg[i] >= 'a' && tg[i] <= 'z') && !(tg[i] >= '0' && tg[i] <= '9') {
					isRes = false
				}
			}
			if isRes {
				n++
				verifAssert(tg == "em:x1", "no-new-tag-in-a-reserved-namespace")
			}
		}
		return n
	}
	verifAssert(reserved(t.tags) == 1, "reserved-tags-unchanged-live")
	verifAssert(reserved([]string(fx.store.topics[t.name].Tags)) == 1, "reserved-tags-unchanged-stored")
	n := 0
	for _, r := range verifDrainSend(sess) {
		if r != nil && r.Ctrl != nil && r.Ctrl.Id == "r1" {
			n++
		}
	}
	verifAssert(n == 1, "set-tags-answered-once")
	verifReach("end")
}

// Search by tags of a masked namespace only with tags the user itself carries - wherever in the query (required
// terms, OR groups, or both) the masked tag stands; ordinary users search active accounts and topics only.
// {get sub} on the user's 'fnd' topic through the real replyGetSub; the store's FindSubs is a recorder.
func Harness_C19_fnd_masked_namespace() {
	verifNewStore()
	verifInitGlobals()
	verifInstallStoreObj(&verifAuthOutcome{})
	globals.maskedTagNS = map[string]bool{"em": true}
	uid := types.Uid(5)
	root := verifNondetBool("rootSession")
	lvl := auth.LevelAuth
	if root {
		lvl = auth.LevelRoot
	}
	sess := verifNewSession("sid-f", uid, lvl, 16)
	own, foreign := "em:mine", "em:other"
	// query = [plain AND] term [,plain] : the tag under test stands alone, after a required term, inside an OR group
	tag := []string{own, foreign, "plain2"}[verifChoose("tag", 3)]
	q := tag
	if verifNondetBool("inOrGroup") {
		q = q + ",flowers"
	}
	if verifNondetBool("afterRequiredTerm") {
		q = "travel " + q
	}
	t := &Topic{name: uid.FndName(), xoriginal: "fnd", cat: types.TopicCatFnd, tags: []string{own, "plain"},
		perUser:  map[types.Uid]perUserData{uid: {modeWant: types.ModeCSelf, modeGiven: types.ModeCSelf}},
		sessions: map[*Session]perSessionData{sess: {uid: uid}}, public: map[string]any{sess.sid: q}}
	verifFindSubsCalls = nil
	msg := &ClientComMessage{Id: "g1", AsUser: uid.UserId(), AuthLvl: int(lvl), Original: "fnd", RcptTo: t.name,
		Timestamp: types.TimeNow(), sess: sess, init: true, MetaWhat: constMsgMetaSub,
		Get: &MsgClientGet{Id: "g1", Topic: "fnd", MsgGetQuery: MsgGetQuery{What: "sub"}}}
	t.handleMeta(msg)
	denied := false
	n := 0
	for _, r := range verifDrainSend(sess) {
		if r != nil && r.Ctrl != nil && r.Ctrl.Id == "g1" {
			n++
			denied = denied || r.Ctrl.Code == 403
		}
	}
	verifAssert(n >= 1, "search-answered")
	if tag == foreign {
		verifAssert(denied && len(verifFindSubsCalls) == 0, "masked-tag-of-somebody-else-never-reaches-the-search")
	} else {
		verifAssert(!denied && len(verifFindSubsCalls) == 1, "permitted-search-is-run")
		if len(verifFindSubsCalls) == 1 {
			verifAssert(verifFindSubsCalls[0].activeOnly == !root, "ordinary-users-search-active-only")
		}
	}
	verifReach("end")
}
