//go:build verif

package main

// Shared fixture for the server-package harnesses: an in-memory fake of the store layer with a
// symbolic single-fault schedule, session/topic builders and snapshot helpers.

import (
	"container/list"
	"errors"
	"sync"
	"sort"
	"time"

	"github.com/tinode/chat/server/auth"
	"github.com/tinode/chat/server/store"
	"github.com/tinode/chat/server/store/types"
)

// ---------------------------------------------------------------------------------------
// Fake store

type verifStoreT struct {
	subs   map[string]*types.Subscription // key: topic + "|" + uid.String()
	topics map[string]*types.Topic
	users  map[types.Uid]*types.User
	msgs   []types.Message
	dellog []types.DelMessage
	// log of mutating calls, in order
	calls []string
	// the failAt-th mutating call (0-based) fails; -1 = never
	failAt  int
	failed  bool
	nMut    int
	unread  map[types.Uid]int
	nextUid uint64
}

var verifStore *verifStoreT

var verifErrFault = errors.New("verif: injected store fault")

func verifNewStore() *verifStoreT {
	verifMaxRows = 0
	verifDuringTopicDelete = nil
	verifCredsLookupFails = false
	verifUserSubs = nil
	verifUserTags = nil
	s := &verifStoreT{
		subs:   map[string]*types.Subscription{},
		topics: map[string]*types.Topic{},
		users:  map[types.Uid]*types.User{},
		failAt: -1,
		unread: map[types.Uid]int{},
	}
	verifStore = s
	store.Messages = verifMessages{}
	store.Subs = verifSubs{}
	store.Topics = verifTopics{}
	store.Users = verifUsers{}
	return s
}

// mutate records a mutating store call and reports whether it must fail.
func (s *verifStoreT) mutate(name string) error {
	idx := s.nMut
	s.nMut++
	if idx == s.failAt {
		s.failed = true
		s.calls = append(s.calls, name+"!FAULT")
		return verifErrFault
	}
	s.calls = append(s.calls, name)
	return nil
}

func verifSubKey(topic string, uid types.Uid) string { return topic + "|" + uid.String() }

func verifUnexpected(what string) {
	verifAssert(false, "harness-gap: unexpected store call "+what)
}

// --- Messages

type verifMessages struct{}

func (verifMessages) Save(msg *types.Message, attachmentURLs []string, readBySender bool) (error, bool) {
	s := verifStore
	// mirrors store.messagesMapper.Save: topic row (SeqId) first, then the message row
	if err := s.mutate("Topics.UpdateSeq"); err != nil {
		return err, false
	}
	if t := s.topics[msg.Topic]; t != nil {
		t.SeqId = msg.SeqId
		t.TouchedAt = msg.CreatedAt
	}
	if err := s.mutate("Messages.Save"); err != nil {
		return err, false
	}
	if verifMaxRows > 0 && len(s.msgs) >= verifMaxRows {
		// a harness-declared ceiling on message rows: unwinds runaway writers (natively too)
		verifAssert(false, verifMaxRowsLabel)
	}
	s.msgs = append(s.msgs, *msg)
	marked := false
	if readBySender {
		from := types.ParseUid(msg.From)
		if sub := s.subs[verifSubKey(msg.Topic, from)]; sub != nil {
			if s.mutate("Subs.UpdateReadRecv") == nil {
				sub.ReadSeqId = msg.SeqId
				sub.RecvSeqId = msg.SeqId
				marked = true
			}
		}
	}
	return nil, marked
}

func (verifMessages) DeleteList(topic string, delID int, forUser types.Uid, ranges []types.Range) error {
	s := verifStore
	if err := s.mutate("Messages.DeleteList"); err != nil {
		return err
	}
	s.dellog = append(s.dellog, types.DelMessage{Topic: topic, DelId: delID, DeletedFor: forUser.String(), SeqIdRanges: ranges})
	if t := s.topics[topic]; t != nil {
		t.DelId = delID
	}
	for _, sub := range s.subs {
		if sub.Topic == topic && (forUser.IsZero() || sub.User == forUser.String()) {
			sub.DelId = delID
		}
	}
	return nil
}

// verifVisible: the message is in the topic, not hard-deleted, and not soft-deleted for forUser.
func (s *verifStoreT) visible(m *types.Message, topic string, forUser types.Uid) bool {
	if m.Topic != topic || m.DelId != 0 {
		return false
	}
	for _, d := range s.dellog {
		if d.Topic != topic || (d.DeletedFor != "" && d.DeletedFor != forUser.String()) {
			continue
		}
		for _, r := range d.SeqIdRanges {
			hi := r.Hi
			if hi == 0 {
				hi = r.Low + 1
			}
			if r.Low <= m.SeqId && m.SeqId < hi {
				return false
			}
		}
	}
	return true
}

// GetAll implements the documented QueryOpt meaning: ids in [Since, Before) (0 = open end), newest first,
// at most Limit (0 = the configured maximum, here 1024), visible to forUser.
func (verifMessages) GetAll(topic string, forUser types.Uid, opt *types.QueryOpt) ([]types.Message, error) {
	s := verifStore
	lower, upper, limit := 0, 1<<31-1, 1024
	if opt != nil {
		if opt.Since > 0 {
			lower = opt.Since
		}
		if opt.Before > 0 {
			upper = opt.Before - 1
		}
		if opt.Limit > 0 && opt.Limit < limit {
			limit = opt.Limit
		}
	}
	var out []types.Message
	for i := len(s.msgs) - 1; i >= 0 && len(out) < limit; i-- {
		m := s.msgs[i]
		if !s.visible(&m, topic, forUser) || m.SeqId < lower || m.SeqId > upper {
			continue
		}
		out = append(out, m)
	}
	return out, nil
}

// GetDeleted: the deletion log entries of the topic that apply to forUser with transaction id in
// [Since, Before), flattened and normalised like store.messagesMapper.GetDeleted does.
func (verifMessages) GetDeleted(topic string, forUser types.Uid, opt *types.QueryOpt) ([]types.Range, int, error) {
	s := verifStore
	lower, upper := 0, 1<<31-1
	if opt != nil {
		if opt.Since > 0 {
			lower = opt.Since
		}
		if opt.Before > 1 {
			upper = opt.Before - 1
		}
	}
	var ranges []types.Range
	maxID := 0
	for _, d := range s.dellog {
		if d.Topic != topic || (d.DeletedFor != "" && d.DeletedFor != forUser.String()) || d.DelId < lower || d.DelId > upper {
			continue
		}
		if d.DelId > maxID {
			maxID = d.DelId
		}
		ranges = append(ranges, d.SeqIdRanges...)
	}
	sort.Sort(types.RangeSorter(ranges))
	ranges = types.RangeSorter(ranges).Normalize()
	return ranges, maxID, nil
}

// ceiling on the number of message rows (0 = none) and the label reported when it is hit
var verifMaxRows int
var verifMaxRowsLabel = "no-runaway-message-writes"

// --- Subs

type verifSubs struct{}

func (verifSubs) Create(subs ...*types.Subscription) error {
	s := verifStore
	if err := s.mutate("Subs.Create"); err != nil {
		return err
	}
	for _, sub := range subs {
		cp := *sub
		s.subs[verifSubKey(sub.Topic, types.ParseUid(sub.User))] = &cp
	}
	return nil
}

func (verifSubs) Get(topic string, user types.Uid, keepDeleted bool) (*types.Subscription, error) {
	s := verifStore
	sub := s.subs[verifSubKey(topic, user)]
	if sub == nil || (sub.DeletedAt != nil && !keepDeleted) {
		return nil, nil
	}
	cp := *sub
	return &cp, nil
}

func (verifSubs) Update(topic string, user types.Uid, update map[string]interface{}) error {
	s := verifStore
	if err := s.mutate("Subs.Update"); err != nil {
		return err
	}
	sub := s.subs[verifSubKey(topic, user)]
	if sub == nil {
		return nil
	}
	verifApplySubUpdate(sub, update)
	return nil
}

func verifApplySubUpdate(sub *types.Subscription, update map[string]interface{}) {
	for k, v := range update {
		switch k {
		case "ReadSeqId":
			sub.ReadSeqId = v.(int)
		case "RecvSeqId":
			sub.RecvSeqId = v.(int)
		case "DelId":
			sub.DelId = v.(int)
		case "ModeWant":
			sub.ModeWant = v.(types.AccessMode)
		case "ModeGiven":
			sub.ModeGiven = v.(types.AccessMode)
		case "Private":
			sub.Private = v
		case "UpdatedAt":
			sub.UpdatedAt = v.(time.Time)
		case "DeletedAt":
			sub.DeletedAt = nil
		default:
			verifAssert(false, "harness-gap: unknown subscription field "+k)
		}
	}
}

func (verifSubs) Delete(topic string, user types.Uid) error {
	s := verifStore
	if err := s.mutate("Subs.Delete"); err != nil {
		return err
	}
	if sub := s.subs[verifSubKey(topic, user)]; sub != nil {
		now := types.TimeNow()
		sub.DeletedAt = &now
	}
	return nil
}

// --- Topics

type verifTopics struct{}

func (verifTopics) Create(topic *types.Topic, owner types.Uid, private interface{}) error {
	s := verifStore
	if err := s.mutate("Topics.Create"); err != nil {
		return err
	}
	cp := *topic
	s.topics[topic.Id] = &cp
	if !owner.IsZero() {
		s.subs[verifSubKey(topic.Id, owner)] = &types.Subscription{
			User: owner.String(), Topic: topic.Id, ModeGiven: types.ModeCFull, ModeWant: topic.GetAccess(owner), Private: private}
	}
	return nil
}

func (verifTopics) CreateP2P(initiator, invited *types.Subscription) error {
	s := verifStore
	if err := s.mutate("Topics.CreateP2P"); err != nil {
		return err
	}
	a, b := *initiator, *invited
	s.subs[verifSubKey(a.Topic, types.ParseUid(a.User))] = &a
	s.subs[verifSubKey(b.Topic, types.ParseUid(b.User))] = &b
	s.topics[a.Topic] = &types.Topic{ObjHeader: types.ObjHeader{Id: a.Topic}}
	return nil
}

func (verifTopics) Get(topic string) (*types.Topic, error) {
	t := verifStore.topics[topic]
	if t == nil {
		return nil, nil
	}
	cp := *t
	return &cp, nil
}

func (verifTopics) subsOf(topic string, any bool, opts *types.QueryOpt) []types.Subscription {
	s := verifStore
	var keys []string
	for k, sub := range s.subs {
		if sub.Topic == topic && (any || sub.DeletedAt == nil) {
			if opts != nil && !opts.User.IsZero() && sub.User != opts.User.String() {
				continue
			}
			keys = append(keys, k)
		}
	}
	sort.Strings(keys)
	var out []types.Subscription
	for _, k := range keys {
		out = append(out, *s.subs[k])
	}
	return out
}

func (t verifTopics) GetUsers(topic string, opts *types.QueryOpt) ([]types.Subscription, error) {
	return t.subsOf(topic, false, opts), nil
}
func (t verifTopics) GetUsersAny(topic string, opts *types.QueryOpt) ([]types.Subscription, error) {
	return t.subsOf(topic, true, opts), nil
}
func (t verifTopics) GetSubs(topic string, opts *types.QueryOpt) ([]types.Subscription, error) {
	return t.subsOf(topic, false, opts), nil
}
func (t verifTopics) GetSubsAny(topic string, opts *types.QueryOpt) ([]types.Subscription, error) {
	return t.subsOf(topic, true, opts), nil
}

func (verifTopics) Update(topic string, update map[string]interface{}) error {
	s := verifStore
	if err := s.mutate("Topics.Update"); err != nil {
		return err
	}
	t := s.topics[topic]
	if t == nil {
		return nil
	}
	for k, v := range update {
		switch k {
		case "Public":
			t.Public = v
		case "Trusted":
			t.Trusted = v
		case "Access":
			t.Access = v.(types.DefaultAccess)
		case "Tags":
			t.Tags = v.(types.StringSlice)
		case "UpdatedAt":
			t.UpdatedAt = v.(time.Time)
		case "TouchedAt":
			t.TouchedAt = v.(time.Time)
		case "DelId":
			t.DelId = v.(int)
		case "SeqId":
			t.SeqId = v.(int)
		case "UseBt", "Owner":
		default:
			verifAssert(false, "harness-gap: unknown topic field "+k)
		}
	}
	return nil
}

func (verifTopics) OwnerChange(topic string, newOwner types.Uid) error {
	s := verifStore
	if err := s.mutate("Topics.OwnerChange"); err != nil {
		return err
	}
	if t := s.topics[topic]; t != nil {
		t.Owner = newOwner.String()
	}
	return nil
}

// verifDuringTopicDelete, when set, runs while the store is deleting a topic (what other goroutines may do meanwhile)
var verifDuringTopicDelete func()

func (verifTopics) Delete(topic string, isChan, hard bool) error {
	s := verifStore
	if verifDuringTopicDelete != nil {
		f := verifDuringTopicDelete
		verifDuringTopicDelete = nil
		f()
	}
	if err := s.mutate("Topics.Delete"); err != nil {
		return err
	}
	delete(s.topics, topic)
	for k, sub := range s.subs {
		if sub.Topic == topic {
			delete(s.subs, k)
		}
	}
	return nil
}

// --- Users

type verifUsers struct{}

func (verifUsers) Create(user *types.User, private interface{}) (*types.User, error) {
	if err := verifStore.mutate("Users.Create"); err != nil {
		return nil, err
	}
	// like the real mapper: assign an id and the time stamps, then store
	user.SetUid(types.Uid(4242))
	user.InitTimes()
	cp := *user
	verifStore.users[user.Uid()] = &cp
	return user, nil
}
func (verifUsers) GetAuthRecord(user types.Uid, scheme string) (string, auth.Level, []byte, time.Time, error) {
	verifUnexpected("Users.GetAuthRecord")
	return "", 0, nil, time.Time{}, nil
}
func (verifUsers) GetAuthUniqueRecord(scheme, unique string) (types.Uid, auth.Level, []byte, time.Time, error) {
	verifUnexpected("Users.GetAuthUniqueRecord")
	return 0, 0, nil, time.Time{}, nil
}
func (verifUsers) AddAuthRecord(uid types.Uid, authLvl auth.Level, scheme, unique string, secret []byte, expires time.Time) error {
	verifUnexpected("Users.AddAuthRecord")
	return nil
}
func (verifUsers) UpdateAuthRecord(uid types.Uid, authLvl auth.Level, scheme, unique string, secret []byte, expires time.Time) error {
	verifUnexpected("Users.UpdateAuthRecord")
	return nil
}
func (verifUsers) DelAuthRecords(uid types.Uid, scheme string) error {
	verifUnexpected("Users.DelAuthRecords")
	return nil
}
func (verifUsers) Get(uid types.Uid) (*types.User, error) {
	u := verifStore.users[uid]
	if u == nil {
		return nil, nil
	}
	cp := *u
	return &cp, nil
}
func (verifUsers) GetAll(uid ...types.Uid) ([]types.User, error) {
	var out []types.User
	for _, id := range uid {
		if u := verifStore.users[id]; u != nil {
			out = append(out, *u)
		}
	}
	return out, nil
}
func (verifUsers) GetByCred(method, value string) (types.Uid, error) { return 0, nil }
func (verifUsers) Delete(id types.Uid, hard bool) error {
	return verifStore.mutate("Users.Delete")
}
func (verifUsers) UpdateLastSeen(uid types.Uid, userAgent string, when time.Time) error {
	return verifStore.mutate("Users.UpdateLastSeen")
}
func (verifUsers) Update(uid types.Uid, update map[string]interface{}) error {
	return verifStore.mutate("Users.Update")
}
// verifUserTags: the user's stored tags, when a harness tracks them (nil = UpdateTags answers with no list)
var verifUserTags []string

func (verifUsers) UpdateTags(uid types.Uid, add, remove, reset []string) ([]string, error) {
	if err := verifStore.mutate("Users.UpdateTags"); err != nil {
		return nil, err
	}
	if verifUserTags == nil {
		return nil, nil
	}
	var out []string
	if reset != nil {
		out = append(out, reset...)
	} else {
		for _, tg := range verifUserTags {
			drop := false
			for _, r := range remove {
				if r == tg {
					drop = true
				}
			}
			if !drop {
				out = append(out, tg)
			}
		}
		out = append(out, add...)
	}
	if out == nil {
		out = []string{}
	}
	verifUserTags = out
	return out, nil
}
func (verifUsers) UpdateState(uid types.Uid, state types.ObjState) error {
	return verifStore.mutate("Users.UpdateState")
}
// verifUserSubs: what Users.GetSubs answers (the user's subscriptions as the 'me' topic loads them); nil = none
var verifUserSubs []types.Subscription

func (verifUsers) GetSubs(id types.Uid) ([]types.Subscription, error) { return verifUserSubs, nil }
func (verifUsers) FindSubs(id types.Uid, required [][]string, optional []string, activeOnly bool) ([]types.Subscription, error) {
	verifFindSubsCalls = append(verifFindSubsCalls, verifFindSubsCall{required, optional, activeOnly})
	return nil, nil
}

type verifFindSubsCall struct {
	required   [][]string
	optional   []string
	activeOnly bool
}

var verifFindSubsCalls []verifFindSubsCall
func (verifUsers) GetTopics(id types.Uid, opts *types.QueryOpt) ([]types.Subscription, error) {
	return nil, nil
}
func (verifUsers) GetTopicsAny(id types.Uid, opts *types.QueryOpt) ([]types.Subscription, error) {
	return nil, nil
}
func (verifUsers) GetOwnTopics(id types.Uid) ([]string, error) { return nil, nil }
func (verifUsers) GetChannels(id types.Uid) ([]string, error)  { return nil, nil }
func (verifUsers) UpsertCred(cred *types.Credential) (bool, error) {
	return false, verifStore.mutate("Users.UpsertCred")
}
func (verifUsers) ConfirmCred(id types.Uid, method string) error {
	return verifStore.mutate("Users.ConfirmCred")
}
func (verifUsers) FailCred(id types.Uid, method string) error {
	return verifStore.mutate("Users.FailCred")
}
func (verifUsers) GetActiveCred(id types.Uid, method string) (*types.Credential, error) {
	return nil, nil
}
// verifCredsLookupFails makes the store's credential lookup fail (a read fault)
var verifCredsLookupFails bool

func (verifUsers) GetAllCreds(id types.Uid, method string, validatedOnly bool) ([]types.Credential, error) {
	if verifCredsLookupFails {
		return nil, types.ErrInternal
	}
	return nil, nil
}
func (verifUsers) DelCred(id types.Uid, method, value string) error {
	return verifStore.mutate("Users.DelCred")
}
func (verifUsers) GetUnreadCount(ids ...types.Uid) (map[types.Uid]int, error) {
	return map[types.Uid]int{}, nil
}
func (verifUsers) GetUnvalidated(lastUpdatedBefore time.Time, limit int) ([]types.Uid, error) {
	return nil, nil
}

// ---------------------------------------------------------------------------------------
// Fixture

type verifFixture struct {
	uids     []types.Uid
	sessions []*Session
	topic    *Topic
	store    *verifStoreT
	hub      *Hub
}

func verifNewSession(sid string, uid types.Uid, lvl auth.Level, sendCap int) *Session {
	return &Session{
		sid:     sid,
		uid:     uid,
		authLvl: lvl,
		ver:     minSupportedVersionValue,
		subs:    make(map[string]*Subscription),
		send:    make(chan any, sendCap),
		stop:    make(chan any, 1),
		detach:  make(chan string, 64),
	}
}

func verifInitGlobals() *Hub {
	hub := &Hub{
		routeCli: make(chan *ClientComMessage, 256),
		routeSrv: make(chan *ServerComMessage, 1024),
		join:     make(chan *ClientComMessage, 256),
		unreg:    make(chan *topicUnreg, 256),
		meta:     make(chan *ClientComMessage, 256),
	}
	globals.hub = hub
	globals.usersUpdate = make(chan *UserCacheReq, 1024)
	globals.cluster = nil
	globals.statsUpdate = nil
	globals.sessionStore = &SessionStore{lru: list.New(), lifeTime: time.Hour, sessCache: make(map[string]*Session)}
	hub.topics = &sync.Map{}
	return hub
}

const verifStranger types.Uid = 99
const verifRootUid types.Uid = 77

const (
	verifKindGrp = iota
	verifKindChn
	verifKindP2P
	verifKindMe
	verifKindSys
)

// verifNewTopic builds a loaded topic of the given kind with nUsers subscribers (uid 1..n) directly
// by struct literal (the way the repo's own tests do), with full modes, nobody attached.
func verifNewTopic(kind int, nUsers int) *verifFixture {
	fx := &verifFixture{}
	fx.store = verifNewStore()
	fx.hub = verifInitGlobals()
	for i := 0; i < nUsers; i++ {
		fx.uids = append(fx.uids, types.Uid(i+1))
	}
	t := &Topic{
		status:                 topicStatusLoaded,
		perUser:                make(map[types.Uid]perUserData),
		sessions:               make(map[*Session]perSessionData),
		killTimer:              time.NewTimer(time.Hour),
		callEstablishmentTimer: time.NewTimer(time.Hour),
		clientMsg:              make(chan *ClientComMessage, 256),
		serverMsg:              make(chan *ServerComMessage, 64),
		meta:                   make(chan *ClientComMessage, 64),
		reg:                    make(chan *ClientComMessage, 256),
		unreg:                  make(chan *ClientComMessage, 256),
		supd:                   make(chan *sessionUpdate, 32),
		exit:                   make(chan *shutDown, 1),
	}
	switch kind {
	case verifKindGrp, verifKindChn:
		t.cat = types.TopicCatGrp
		t.name = "grpAAAAAAAAAAB"
		t.xoriginal = t.name
		t.isChan = kind == verifKindChn
		t.owner = fx.uids[0]
		t.accessAuth = getDefaultAccess(t.cat, true, t.isChan)
		t.accessAnon = getDefaultAccess(t.cat, false, t.isChan)
	case verifKindP2P:
		t.cat = types.TopicCatP2P
		t.name = fx.uids[0].P2PName(fx.uids[1])
		t.xoriginal = t.name
	case verifKindMe:
		t.cat = types.TopicCatMe
		t.name = fx.uids[0].UserId()
		t.xoriginal = "me"
		t.perSubs = make(map[string]perSubsData)
	case verifKindSys:
		t.cat = types.TopicCatSys
		t.name = "sys"
		t.xoriginal = "sys"
	}
	fx.store.topics[t.name] = &types.Topic{ObjHeader: types.ObjHeader{Id: t.name}, Owner: t.owner.String()}
	for i, uid := range fx.uids {
		pud := perUserData{modeWant: types.ModeCFull, modeGiven: types.ModeCFull}
		if kind == verifKindP2P {
			pud.modeWant, pud.modeGiven = types.ModeCP2P, types.ModeCP2P
			pud.topicName = fx.uids[i^1].UserId()
		}
		t.perUser[uid] = pud
		fx.store.subs[verifSubKey(t.name, uid)] = &types.Subscription{
			User: uid.String(), Topic: t.name, ModeWant: pud.modeWant, ModeGiven: pud.modeGiven}
	}
	fx.topic = t
	return fx
}

// attach registers sess with the topic on behalf of uid (without running the subscribe handler).
func (fx *verifFixture) attach(sess *Session, uid types.Uid, asChan bool) {
	t := fx.topic
	t.sessions[sess] = perSessionData{uid: uid, isChanSub: asChan}
	// Session.subs is keyed by the routable topic name (see subscriptionReply: addSub(t.name, ...)).
	sess.subs[t.name] = &Subscription{broadcast: t.clientMsg, done: t.unreg, meta: t.meta, supd: t.supd}
	if !asChan {
		pud := t.perUser[uid]
		pud.online++
		t.perUser[uid] = pud
	}
}

// drainSend pops everything queued for the session.
func verifDrainSend(s *Session) []*ServerComMessage {
	var out []*ServerComMessage
	for {
		select {
		case m := <-s.send:
			if scm, ok := m.(*ServerComMessage); ok {
				out = append(out, scm)
			} else {
				out = append(out, nil)
			}
		default:
			return out
		}
	}
}

func verifDrainHub(h *Hub) []*ServerComMessage {
	var out []*ServerComMessage
	for {
		select {
		case m := <-h.routeSrv:
			out = append(out, m)
		default:
			return out
		}
	}
}

func verifDrainUsersUpdate() []*UserCacheReq {
	var out []*UserCacheReq
	for {
		select {
		case m := <-globals.usersUpdate:
			out = append(out, m)
		default:
			return out
		}
	}
}

// verifMode returns an arbitrary 8-bit access mode.
func verifMode(name string) types.AccessMode { return types.AccessMode(verifNondetU8(name)) }

// verifSeq returns an arbitrary sequence number in [0, 2^31).
func verifSeq(name string) int {
	v := verifNondetInt(name)
	verifAssume(v >= 0 && v < 1<<31)
	return v
}
