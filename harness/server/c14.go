//go:build verif

package main

import (
	"time"

	"github.com/tinode/chat/server/auth"
	"github.com/tinode/chat/server/store/types"
)

// C14 (sequential part): after any single attach/detach/evict/disconnect/slow-consumer/termination
// event, and after the sessions have processed the detach notices the event produced, a session
// lists the topic iff the topic lists the session; attached sessions belong to current, non-removed
// subscribers; request bookkeeping is balanced; the request got its reply or the eviction notice.
// Goroutine scheduling and data races are NOT decided here.

type verifAttachWorld struct {
	fx    *verifFixture
	t     *Topic
	sess  []*Session
	owner []types.Uid
}

func verifAttachSetup(kind int) *verifAttachWorld {
	w := &verifAttachWorld{}
	fx := verifNewTopic(kind, 2)
	w.fx, w.t = fx, fx.topic
	verifNotified = nil
	for _, u := range fx.uids {
		fx.store.users[u] = &types.User{State: types.StateOK, Access: types.DefaultAccess{Auth: types.ModeCAuth}}
	}
	for i, u := range fx.uids {
		for k := 0; k < 2; k++ {
			capacity := 32
			if i == 1 && k == 1 {
				capacity = 1 // a slow consumer: its queue can be full
			}
			s := verifNewSession("sid-"+string(rune('a'+i))+string(rune('0'+k)), u, auth.LevelAuth, capacity)
			s.inflightReqs = newBoundedWaitGroup(8)
			if verifNondetBool("attached") {
				fx.attach(s, u, false)
			}
			w.sess = append(w.sess, s)
			w.owner = append(w.owner, u)
		}
	}
	if verifNondetBool("slowQueueFull") {
		w.sess[3].send <- &ServerComMessage{Ctrl: &MsgServerCtrl{Code: 200}}
	}
	return w
}

// settle lets every session process its pending detach notices, as its own goroutine would.
func (w *verifAttachWorld) settle() {
	for _, s := range w.sess {
		for {
			select {
			case name := <-s.detach:
				s.delSub(name)
				continue
			default:
			}
			break
		}
	}
}

func (w *verifAttachWorld) assertSymmetry(terminated bool) {
	t := w.t
	for i, s := range w.sess {
		_ = i
		_, listed := t.sessions[s]
		has := s.getSub(t.name) != nil
		if terminated {
			verifAssert(!has, "terminated-topic-is-dropped-by-every-session")
			continue
		}
		verifAssert(listed == has, "session-lists-topic-iff-topic-lists-session")
		if listed {
			pud, in := t.perUser[w.owner[i]]
			verifAssert(in && !pud.deleted, "attached-session-belongs-to-a-current-subscriber")
			verifAssert((pud.modeWant & pud.modeGiven).IsJoiner(), "attached-session-has-join-permission")
		}
		verifAssert(len(s.inflightReqs.sem) == 0, "request-bookkeeping-balanced")
	}
}

func harnessC14Step(kind int) {
	w := verifAttachSetup(kind)
	t := w.t
	k := verifChoose("session", len(w.sess))
	s, u := w.sess[k], w.owner[k]
	_, attached := t.sessions[s]
	orig := t.original(u)
	base := ClientComMessage{Id: "r1", AsUser: u.UserId(), AuthLvl: int(auth.LevelAuth), Original: orig, RcptTo: t.name,
		Timestamp: types.TimeNow(), sess: s, init: true}
	terminated := false
	needReply := true
	switch verifChoose("event", 7) {
	case 0: // subscribe - the request may have been queued before the hub paused or deleted the topic
		verifAssume(!attached)
		switch verifChoose("topicStatus", 3) {
		case 1:
			t.status |= topicStatusPaused
		case 2:
			t.status |= topicStatusMarkedDeleted
		}
		s.inflightReqs.Add(1)
		msg := base
		msg.Sub = &MsgClientSub{Id: "r1", Topic: orig}
		t.registerSession(&msg)
		if t.status&(topicStatusPaused|topicStatusMarkedDeleted) != 0 {
			_, att := t.sessions[s]
			verifAssert(!att, "no-attachment-to-an-inactive-topic")
		}
	case 1: // leave
		verifAssume(attached)
		s.inflightReqs.Add(1)
		msg := base
		msg.Leave = &MsgClientLeave{Id: "r1", Topic: orig}
		t.unregisterSession(&msg)
	case 2: // leave + unsubscribe
		verifAssume(attached)
		s.inflightReqs.Add(1)
		msg := base
		msg.Leave = &MsgClientLeave{Id: "r1", Topic: orig, Unsub: true}
		t.unregisterSession(&msg)
	case 3: // disconnect
		verifAssume(attached)
		needReply = false
		t.unregisterSession(&ClientComMessage{sess: s, init: false})
	case 4: // the other user is evicted by this one ({del sub}) - groups only
		verifAssume(attached && kind == verifKindGrp)
		other := w.fx.uids[0]
		if u == other {
			other = w.fx.uids[1]
		}
		msg := base
		msg.Del = &MsgClientDel{Id: "r1", Topic: orig, What: "sub", User: other.UserId()}
		msg.MetaWhat = constMsgDelSub
		t.handleMeta(&msg)
	case 5: // a publish that hits a slow consumer
		verifAssume(attached)
		msg := base
		msg.Pub = &MsgClientPub{Id: "r1", Topic: orig, Content: "x"}
		t.handleClientMsg(&msg)
	case 6: // the topic is deleted
		needReply = false
		terminated = true
		// deleted, unloaded by the hub (idle timer, or its user's account soft-deleted), or moved at a rehash
		reason := []int{StopDeleted, StopNone, StopRehashing}[verifChoose("stopReason", 3)]
		if reason == StopDeleted {
			t.markDeleted()
		}
		t.handleTopicTermination(&shutDown{reason: reason})
	}
	w.settle()
	w.assertSymmetry(terminated)
	if needReply {
		got := verifDrainSend(s)
		verifAssert(len(got) >= 1 || len(s.send) == cap(s.send), "request-answered-or-evicted")
	}
	verifReach("end")
}

func Harness_C14_step_grp() { harnessC14Step(verifKindGrp) }
func Harness_C14_step_p2p() { harnessC14Step(verifKindP2P) }

// Session termination with a request still in flight: cleanUp must wait for the in-flight request BEFORE it
// tears the session's subscriptions down - otherwise a {sub} that completes after the tear-down leaves the
// dead session attached for ever. cleanUp runs as its own goroutine; the harness observes the state at the
// moment it parks.
func Harness_C14_cleanup_waits_before_teardown() {
	fx := verifNewTopic(verifKindGrp, 2)
	t := fx.topic
	verifNotified = nil
	u := fx.uids[0]
	s := verifNewSession("sid-a", u, auth.LevelAuth, 32)
	s.inflightReqs = newBoundedWaitGroup(8)
	s.bkgTimer = time.NewTimer(time.Hour)
	fx.attach(s, u, false)
	inflight := verifNondetBool("requestInFlight")
	if inflight {
		s.inflightReqs.Add(1)
	}
	blocked := verifRunUntilBlocked(func() { s.cleanUp(false) })
	verifAssert(blocked == inflight, "cleanup-waits-exactly-while-a-request-is-in-flight")
	if blocked {
		verifAssert(len(t.unreg) == 0, "no-teardown-before-in-flight-requests-finished")
	} else {
		verifAssert(len(t.unreg) == 1, "terminated-session-leaves-its-topics")
	}
	verifReach("end")
}

// Account deletion stops the user's live topics and then signals completion to the waiting {del user} handler.
// With no live topic there is nothing to wait for - but the completion signal must still be sent, or the
// handler (and with it the session) waits for ever. With live topics each is marked deleted, dropped from the
// hub and told to exit with a done channel before the function waits for them.
func Harness_C14_stop_topics_for_user_signals_completion() {
	verifNewStore()
	hub := verifInitGlobals()
	uid := types.Uid(5)
	k := verifChoose("liveTopics", 3)
	var live []*Topic
	if k >= 1 {
		me := verifMeTopic(uid)
		me.exit = make(chan *shutDown, 1)
		hub.topics.Store(me.name, me)
		live = append(live, me)
	}
	if k >= 2 {
		other := types.Uid(6)
		p := &Topic{name: uid.P2PName(other), cat: types.TopicCatP2P, exit: make(chan *shutDown, 1),
			perUser: map[types.Uid]perUserData{uid: {}, other: {}}, sessions: map[*Session]perSessionData{}}
		hub.topics.Store(p.name, p)
		live = append(live, p)
	}
	// somebody else's group stays
	grp := &Topic{name: "grpAAAAAAAAAAB", cat: types.TopicCatGrp, owner: types.Uid(9), exit: make(chan *shutDown, 1),
		perUser: map[types.Uid]perUserData{uid: {}, types.Uid(9): {}}, sessions: map[*Session]perSessionData{}}
	hub.topics.Store(grp.name, grp)
	alldone := make(chan bool, 1)
	blocked := verifRunUntilBlocked(func() { hub.stopTopicsForUser(uid, StopDeleted, alldone) })
	if k == 0 {
		verifAssert(!blocked && len(alldone) == 1, "completion-signalled-when-nothing-is-live")
	} else {
		verifAssert(blocked && len(alldone) == 0, "waits-for-the-live-topics-to-confirm")
	}
	for _, t := range live {
		_, still := hub.topics.Load(t.name)
		verifAssert(!still && t.isInactive(), "users-topic-marked-deleted-and-dropped")
		verifAssert(len(t.exit) == 1, "users-topic-told-to-exit")
	}
	_, still := hub.topics.Load(grp.name)
	verifAssert(still && !grp.isInactive() && len(grp.exit) == 0, "somebody-elses-group-untouched")
	verifReach("end")
}

// Topic deletion through the real Hub.topicUnreg on a live group, with the store's delete arbitrary (ok or
// failing): the request is answered; a successful deletion drops the topic from the hub, marks it deleted and
// tells it to exit; a failed one leaves the topic in service - still registered, not inactive - so that a later
// disconnect of an attached session is processed (the session ends up detached) and a {leave} is answered.
// A non-owner's request is handed to the topic itself.
func Harness_C14_hub_topic_delete() {
	fx := verifNewTopic(verifKindGrp, 2)
	t := fx.topic
	verifNotified = nil
	hub := fx.hub
	hub.topicPut(t.name, t)
	for _, u := range fx.uids {
		fx.store.users[u] = &types.User{State: types.StateOK, Access: types.DefaultAccess{Auth: types.ModeCAuth}}
	}
	owner, member := fx.uids[0], fx.uids[1]
	so := verifNewSession("sid-owner", owner, auth.LevelAuth, 32)
	so.inflightReqs = newBoundedWaitGroup(8)
	sm := verifNewSession("sid-member", member, auth.LevelAuth, 32)
	sm.inflightReqs = newBoundedWaitGroup(8)
	fx.attach(so, owner, false)
	fx.attach(sm, member, false)
	byOwner := verifNondetBool("byOwner")
	actor, as := owner, so
	if !byOwner {
		actor, as = member, sm
	}
	fx.store.failAt = verifChoose("failAt", 2) - 1
	msg := &ClientComMessage{Id: "d1", AsUser: actor.UserId(), AuthLvl: int(auth.LevelAuth), Original: t.name, RcptTo: t.name,
		Timestamp: types.TimeNow(), sess: as, init: true, Del: &MsgClientDel{Id: "d1", Topic: t.name, What: "topic", Hard: verifNondetBool("hard")}}
	// while the store is busy deleting the topic (the hub's goroutine), the topic's own goroutine may pick up a
	// publish from an attached writer: a topic that is being deleted refuses it, without any effect
	rowsBefore, lastBefore := len(fx.store.msgs), t.lastID
	pubRefused := true
	if byOwner {
		verifDuringTopicDelete = func() {
			pub := &ClientComMessage{Id: "p1", AsUser: member.UserId(), AuthLvl: int(auth.LevelAuth), Original: t.name, RcptTo: t.name,
				Timestamp: types.TimeNow(), sess: sm, init: true, Pub: &MsgClientPub{Id: "p1", Topic: t.name, Content: "late"}}
			t.handleClientMsg(pub)
			pubRefused = false
			for _, r := range verifDrainSend(sm) {
				if r != nil && r.Ctrl != nil && r.Ctrl.Id == "p1" && r.Ctrl.Code >= 400 {
					pubRefused = true
				}
			}
		}
	}
	err := hub.topicUnreg(as, t.name, msg, StopDeleted)
	if byOwner {
		verifAssert(pubRefused, "publish-to-a-topic-being-deleted-is-refused")
		verifAssert(len(fx.store.msgs) == rowsBefore && t.lastID == lastBefore, "publish-to-a-topic-being-deleted-has-no-effect")
	}
	faulted := fx.store.failed
	fx.store.failAt = -1
	if !byOwner {
		verifAssert(err == nil && len(t.meta) == 1 && !faulted, "non-owners-request-handed-to-the-topic")
		verifAssert(hub.topicGet(t.name) == t && !t.isInactive(), "topic-stays-in-service-for-a-non-owners-request")
		verifReach("end-non-owner")
		return
	}
	replies := verifDrainSend(so)
	verifAssert(len(replies) == 1 && replies[0].Ctrl != nil && replies[0].Ctrl.Id == "d1", "delete-request-answered-once")
	if faulted {
		verifAssert(err != nil && replies[0].Ctrl.Code >= 500, "failed-deletion-reported")
		verifAssert(hub.topicGet(t.name) == t, "failed-deletion-keeps-the-topic-registered")
		verifAssert(!t.isInactive() && !t.isDeleted(), "failed-deletion-leaves-the-topic-in-service")
		verifAssert(len(t.exit) == 0, "failed-deletion-does-not-stop-the-topic")
		// the topic still processes a disconnect and a leave
		t.unregisterSession(&ClientComMessage{sess: sm, init: false})
		_, still := t.sessions[sm]
		verifAssert(!still, "terminated-session-detached-after-a-failed-deletion")
		so.inflightReqs.Add(1)
		lv := &ClientComMessage{Id: "l1", AsUser: owner.UserId(), AuthLvl: int(auth.LevelAuth), Original: t.name, RcptTo: t.name,
			Timestamp: types.TimeNow(), sess: so, init: true, Leave: &MsgClientLeave{Id: "l1", Topic: t.name}}
		t.unregisterSession(lv)
		lr := verifDrainSend(so)
		verifAssert(len(lr) == 1 && lr[0].Ctrl != nil && lr[0].Ctrl.Code < 300, "leave-answered-after-a-failed-deletion")
	} else {
		verifAssert(err == nil && replies[0].Ctrl.Code == 200, "deletion-acknowledged")
		verifAssert(hub.topicGet(t.name) == nil && t.isDeleted(), "deleted-topic-dropped-and-marked")
		verifAssert(len(t.exit) == 1, "deleted-topic-told-to-exit")
	}
	verifReach("end")
}

// A terminated topic tells every attached session to drop it. If a session's queue of detach notices is full
// (its goroutine is busy elsewhere) the topic waits - the notice is never dropped, otherwise the session would
// list a dead topic for ever and a later {leave} on it would go unanswered.
func Harness_C14_detach_notice_never_dropped() {
	fx := verifNewTopic(verifKindGrp, 2)
	t := fx.topic
	verifNotified = nil
	u := fx.uids[1]
	s := verifNewSession("sid-a", u, auth.LevelAuth, 32)
	s.inflightReqs = newBoundedWaitGroup(8)
	fx.attach(s, u, false)
	full := verifNondetBool("detachQueueFull")
	pending := 0
	if full {
		for len(s.detach) < cap(s.detach) {
			s.detach <- "grpSomethingElse"
		}
		pending = cap(s.detach)
	}
	t.markDeleted()
	blocked := verifRunUntilBlocked(func() { t.handleTopicTermination(&shutDown{reason: StopDeleted}) })
	if full {
		verifAssert(blocked && len(s.detach) == pending, "topic-waits-for-a-full-detach-queue")
	} else {
		verifAssert(!blocked && len(s.detach) == 1, "session-told-to-drop-the-topic")
	}
	verifReach("end")
}
