//go:build verif

package main

import (
	"sync"
	"bytes"
	"crypto/hmac"
	"crypto/md5"
	"encoding/base64"
	"encoding/json"
	"io"
	"net/http"
	"net/url"
	"strings"
	"time"

	"github.com/tinode/chat/server/auth"
	"github.com/tinode/chat/server/media"
	"github.com/tinode/chat/server/store"
	"github.com/tinode/chat/server/store/types"
)

// C16 (download endpoint): the gates of largeFileServe - method, API key, credentials - stand before the media
// handler, a refused request touches nothing, and active content is forced to be saved rather than displayed.
// The request is built from pools (method, where the key and the credentials are carried, whether they are
// valid, the stored content type); net/http's own parsing of these small requests is interpreted as is.

type verifRW struct {
	hdr  http.Header
	code int
	body bytes.Buffer
}

func (w *verifRW) Header() http.Header         { return w.hdr }
func (w *verifRW) Write(p []byte) (int, error) { return w.body.Write(p) }
func (w *verifRW) WriteHeader(code int) {
	if w.code == 0 {
		w.code = code
	}
}

type verifRSC struct{ *bytes.Reader }

func (verifRSC) Close() error { return nil }

type verifMedia struct {
	downloads int
	headers   int
	mime      string
}

func (m *verifMedia) Init(jsconf string) error { return nil }
func (m *verifMedia) Headers(req *http.Request, serve bool) (http.Header, int, error) {
	m.headers++
	return nil, 0, nil
}
func (m *verifMedia) Upload(fdef *types.FileDef, file io.ReadSeeker) (string, int64, error) {
	return "", 0, nil
}
func (m *verifMedia) Download(url string) (*types.FileDef, media.ReadSeekCloser, error) {
	m.downloads++
	return &types.FileDef{MimeType: m.mime}, verifRSC{bytes.NewReader([]byte("DATA"))}, nil
}
func (m *verifMedia) Delete(locations []string) error   { return nil }
func (m *verifMedia) GetIdFromUrl(url string) types.Uid { return types.ZeroUid }

var verifServed int

// Engine side: the response body encoder and the file server are I/O.
//
//verif:override (*encoding/json.Encoder).Encode
func verifJSONEncode(e *json.Encoder, v any) error { return nil }

//verif:override net/http.ServeContent
func verifServeContent(w http.ResponseWriter, req *http.Request, name string, modtime time.Time, content io.ReadSeeker) {
	verifServed++
	w.WriteHeader(200)
}

//verif:override github.com/tinode/chat/server.checkAPIKey
func verifCheckAPIKey(apikey string) (isValid, isRoot bool) { return apikey == verifGoodKey, false }

// natively the real checkAPIKey runs: make a genuinely valid key for the configured salt
var verifGoodKey = "GOODKEY"

func verifNativeGoodKey() string {
	data := make([]byte, 24)
	data[0] = 1
	h := hmac.New(md5.New, globals.apiKeySalt)
	h.Write(data[:8])
	copy(data[8:], h.Sum(nil))
	return base64.URLEncoding.EncodeToString(data)
}

func verifActiveContent(mime string) bool {
	return strings.Contains(mime, "html") || strings.Contains(mime, "xml") ||
		strings.HasPrefix(mime, "application/") || strings.HasPrefix(mime, "text/") ||
		strings.HasPrefix(mime, "message/") || strings.HasPrefix(mime, "model/") || strings.HasPrefix(mime, "multipart/")
}

func Harness_C16_serve_gates() {
	verifNewStore()
	verifInitGlobals()
	globals.apiKeySalt = []byte("0123456789abcdef0123456789abcdef")
	if !verifIsSymbolicEngine() {
		verifGoodKey = verifNativeGoodKey()
	}
	outcome := &verifAuthOutcome{uid: types.Uid(7), level: auth.LevelAuth}
	authOK := verifNondetBool("credentialsValid")
	if !authOK {
		outcome.err = types.ErrFailed
	}
	verifInstallStoreObj(outcome)
	mimes := []string{"image/png", "text/html", "application/pdf", "image/svg+xml", "video/mp4", "text/plain", "audio/ogg", "application/xhtml+xml", "message/rfc822", "x/y"}
	mh := &verifMedia{mime: mimes[verifChoose("mime", len(mimes))]}
	verifMediaHandler = mh
	verifServed = 0

	method := []string{"GET", "HEAD", "POST", "PUT", "DELETE", "PATCH"}[verifChoose("method", 6)]
	q := url.Values{}
	hdr := http.Header{}
	key := ""
	switch verifChoose("key", 3) {
	case 1:
		key = verifGoodKey
	case 2:
		key = "AQEAAAABAAD_rAp4DJh05a1HAwFT3A6K" // well-formed, wrong signature
	}
	if key != "" {
		if verifNondetBool("keyInHeader") {
			hdr.Set("X-Tinode-APIKey", key)
		} else {
			q.Set("apikey", key)
		}
	}
	hasCred := verifNondetBool("credentialsPresent")
	if hasCred {
		secret := base64.StdEncoding.EncodeToString([]byte("tok"))
		switch verifChoose("credIn", 3) {
		case 0:
			hdr.Set("X-Tinode-Auth", "Token "+secret)
		case 1:
			hdr.Set("Authorization", "Token "+secret)
		case 2:
			q.Set("auth", "token")
			q.Set("secret", secret)
		}
	}
	// ?asatt= asks for "save, don't display"; it can only add to the forced download of active content
	asattVal := []string{"", "1", "true", "0", "false", "junk"}[verifChoose("asatt", 6)]
	asatt := asattVal == "1" || asattVal == "true"
	if asattVal != "" {
		q.Set("asatt", asattVal)
	}
	// a stray ?topic= (the upload endpoint knows topic=newacc) means nothing to downloads
	if tp := []string{"", "newacc", "grpAAAAAAAAAAB"}[verifChoose("topicParam", 3)]; tp != "" {
		q.Set("topic", tp)
	}
	req := &http.Request{Method: method, Header: hdr, URL: &url.URL{Path: "/v0/file/s/abc.png", RawQuery: q.Encode()}}
	w := &verifRW{hdr: http.Header{}}
	largeFileServe(w, req)

	allowed := (method == "GET" || method == "HEAD") && key == verifGoodKey && hasCred && authOK
	if !allowed {
		verifAssert(mh.downloads == 0 && mh.headers == 0, "refused-download-touches-nothing")
		verifAssert(w.code >= 400, "refused-download-gets-an-error-status")
	}
	if method != "GET" && method != "HEAD" {
		verifAssert(w.code == http.StatusMethodNotAllowed, "unimplemented-method-refused")
	} else if key != verifGoodKey {
		verifAssert(w.code == http.StatusForbidden, "api-key-required")
	} else if !hasCred || !authOK {
		verifAssert(w.code == http.StatusUnauthorized, "credentials-required")
	}
	if mh.downloads > 0 {
		verifAssert(allowed && method == "GET", "download-only-for-an-authorised-GET")
		verifAssert(w.hdr.Get("Content-Type") == mh.mime, "content-type-as-detected-at-upload")
		forced := w.hdr.Get("Content-Disposition") == "attachment"
		verifAssert(forced == (asatt || verifActiveContent(mh.mime)), "active-content-is-saved-not-displayed")
	}
	if allowed && method == "GET" {
		verifAssert(mh.downloads == 1, "authorised-GET-is-served")
	}
	verifReach("end")
}

// ---- upload endpoint

type verifFilesT struct {
	started, finished int
	links             []string // topic (or user) each LinkAttachments call was for
	finishFails       bool // the store cannot record the completed upload
	gcMu              sync.Mutex
	gcGrace           []time.Duration // now - olderThan of every DeleteUnused call
	gcLimit           []int
}

var verifFiles *verifFilesT

func (f *verifFilesT) StartUpload(fd *types.FileDef) error { f.started++; return nil }
func (f *verifFilesT) FinishUpload(fd *types.FileDef, success bool, size int64) (*types.FileDef, error) {
	f.finished++
	if f.finishFails {
		// like the adapters: no record comes back with the error
		return nil, types.ErrInternal
	}
	return fd, nil
}
func (f *verifFilesT) Get(fid string) (*types.FileDef, error)                 { return nil, nil }
func (f *verifFilesT) DeleteUnused(olderThan time.Time, limit int) error {
	f.gcMu.Lock()
	defer f.gcMu.Unlock()
	f.gcGrace = append(f.gcGrace, time.Now().Sub(olderThan))
	f.gcLimit = append(f.gcLimit, limit)
	return nil
}
func (f *verifFilesT) gcCalls() int {
	f.gcMu.Lock()
	defer f.gcMu.Unlock()
	return len(f.gcGrace)
}
func (f *verifFilesT) LinkAttachments(topic string, msgId types.Uid, attachments []string) error {
	f.links = append(f.links, topic)
	return nil
}

type verifUploadMedia struct {
	verifMedia
	uploads  int
	received int64
	deleted  []string
}

func (m *verifUploadMedia) Delete(locations []string) error {
	m.deleted = append(m.deleted, locations...)
	return nil
}

func (m *verifUploadMedia) Upload(fdef *types.FileDef, file io.ReadSeeker) (string, int64, error) {
	m.uploads++
	n, _ := io.Copy(io.Discard, file)
	m.received = n
	return "/v0/file/s/" + fdef.Id, n, nil
}

func verifMultipart(fields map[string]string, order []string, fileBytes int) string {
	var b strings.Builder
	for _, k := range order {
		b.WriteString("--XBOUNDARYX\r\nContent-Disposition: form-data; name=\"" + k + "\"\r\n\r\n" + fields[k] + "\r\n")
	}
	b.WriteString("--XBOUNDARYX\r\nContent-Disposition: form-data; name=\"file\"; filename=\"a.png\"\r\nContent-Type: image/png\r\n\r\n")
	b.WriteString("\x89PNG\r\n\x1a\n")
	for i := 8; i < fileBytes; i++ {
		b.WriteByte('x')
	}
	b.WriteString("\r\n--XBOUNDARYX--\r\n")
	return b.String()
}

// The gates of largeFileReceive: method, size limit, API key, credentials - before anything is stored.
func Harness_C16_receive_gates() {
	verifNewStore()
	verifInitGlobals()
	globals.apiKeySalt = []byte("0123456789abcdef0123456789abcdef")
	if !verifIsSymbolicEngine() {
		verifGoodKey = verifNativeGoodKey()
	}
	const limit = 600
	globals.maxFileUploadSize = limit
	outcome := &verifAuthOutcome{uid: types.Uid(7), level: auth.LevelAuth}
	authOK := verifNondetBool("credentialsValid")
	if !authOK {
		outcome.err = types.ErrFailed
	}
	verifInstallStoreObj(outcome)
	mh := &verifUploadMedia{}
	verifMediaHandler = mh
	verifFiles = &verifFilesT{}
	store.Files = verifFiles

	method := []string{"POST", "PUT", "GET", "DELETE", "PATCH"}[verifChoose("method", 5)]
	hdr := http.Header{}
	hdr.Set("Content-Type", "multipart/form-data; boundary=XBOUNDARYX")
	fields := map[string]string{"id": "m1"}
	order := []string{"id"}
	key := ""
	switch verifChoose("key", 3) {
	case 1:
		key = verifGoodKey
	case 2:
		key = "AQEAAAABAAD_rAp4DJh05a1HAwFT3A6K"
	}
	if key != "" {
		if verifNondetBool("keyInHeader") {
			hdr.Set("X-Tinode-APIKey", key)
		} else {
			fields["apikey"] = key
			order = append(order, "apikey")
		}
	}
	hasCred := verifNondetBool("credentialsPresent")
	if hasCred {
		secret := base64.StdEncoding.EncodeToString([]byte("tok"))
		if verifNondetBool("credInHeader") {
			hdr.Set("X-Tinode-Auth", "Token "+secret)
		} else {
			fields["auth"], fields["secret"] = "token", secret
			order = append(order, "auth", "secret")
		}
	}
	topicField := []string{"", "newacc", "grpAAAAAAAAAAB"}[verifChoose("topicField", 3)]
	if topicField != "" {
		fields["topic"] = topicField
		order = append(order, "topic")
	}
	verifFiles.finishFails = verifNondetBool("recordingTheUploadFails")
	big := verifNondetBool("oversized")
	fileBytes := 100
	if big {
		fileBytes = 3 * limit
	}
	body := verifMultipart(fields, order, fileBytes)
	req := &http.Request{Method: method, Header: hdr, URL: &url.URL{Path: "/v0/file/u/"},
		Body: io.NopCloser(strings.NewReader(body)), ContentLength: int64(len(body))}
	w := &verifRW{hdr: http.Header{}}
	largeFileReceive(w, req)

	implemented := method == "POST" || method == "PUT"
	allowed := implemented && key == verifGoodKey && hasCred && authOK && !big
	if !allowed {
		sfx := ""
		if implemented && key == verifGoodKey && !hasCred && !big && topicField == "newacc" {
			// known finding: an upload that names topic=newacc (avatar chosen during sign-up) is accepted without credentials
			sfx = "/KF-signup-upload-without-credentials"
		}
		verifAssert(mh.uploads == 0 && verifFiles.started == 0, "refused-upload-stores-nothing"+sfx)
		verifAssert(w.code >= 400, "refused-upload-gets-an-error-status"+sfx)
	}
	if !implemented {
		verifAssert(w.code == http.StatusMethodNotAllowed, "unimplemented-method-refused")
	} else if big {
		verifAssert(mh.uploads == 0, "oversized-upload-refused")
	}
	if allowed && verifFiles.finishFails {
		// the bytes were stored but the upload could not be recorded: reported, and the stored bytes are removed
		verifAssert(w.code >= 500, "failed-upload-reported")
		verifAssert(mh.uploads == 1 && len(mh.deleted) == 1, "failed-upload-leaves-no-stored-bytes")
	} else if allowed {
		verifAssert(mh.uploads == 1 && mh.received == int64(fileBytes), "authorised-upload-stored-byte-for-byte")
		verifAssert(w.code == 200, "authorised-upload-acknowledged")
	}
	verifReach("end")
}

// ---- linking of avatars: a {set desc} re-links the topic's avatar exactly when it changes the topic's own
// description (public / trusted / default access) and is acknowledged - never on a private-only update (a topic
// has one link: re-linking to whatever a member listed would unlink the real avatar and let it be collected),
// never for a refused request.
func Harness_C16_setdesc_links_avatar() {
	fx := verifNewTopic(verifKindGrp, 2)
	t := fx.topic
	t.public = "public-v1"
	fx.store.topics[t.name].Public = t.public
	verifFiles = &verifFilesT{}
	store.Files = verifFiles
	actor := fx.uids[verifChoose("actor", 2)]
	sess := verifNewSession("sid-a", actor, auth.LevelAuth, 16)
	fx.attach(sess, actor, false)
	d := &MsgSetDesc{}
	setPublic, setPrivate := verifNondetBool("setPublic"), verifNondetBool("setPrivate")
	if setPublic {
		d.Public = "public-v2"
	}
	if setPrivate {
		d.Private = "private-v2"
	}
	msg := &ClientComMessage{Id: "r1", AsUser: actor.UserId(), AuthLvl: int(auth.LevelAuth), Original: t.name, RcptTo: t.name,
		Timestamp: types.TimeNow(), sess: sess, init: true, MetaWhat: constMsgMetaDesc,
		Set: &MsgClientSet{Id: "r1", Topic: t.name, MsgSetQuery: MsgSetQuery{Desc: d}}}
	withAtt := verifNondetBool("withAttachment")
	if withAtt {
		msg.Extra = &MsgClientExtra{Attachments: []string{"/v0/file/s/abc"}}
	}
	t.handleMeta(msg)
	ok := false
	for _, r := range verifDrainSend(sess) {
		if r != nil && r.Ctrl != nil && r.Ctrl.Id == "r1" && r.Ctrl.Code < 300 {
			ok = true
		}
	}
	want := 0
	if ok && setPublic && withAtt {
		want = 1
	}
	verifAssert(len(verifFiles.links) == want, "avatar-relinked-exactly-when-the-topic-description-changes")
	for _, l := range verifFiles.links {
		verifAssert(l == t.name, "avatar-linked-to-this-topic")
	}
	if setPublic && actor != t.owner {
		verifAssert(!ok && t.public == "public-v1", "only-the-owner-changes-the-public-description")
	}
	verifReach("end")
}

// ---- garbage collection loop: on a tick the real largeFileRunGarbageCollection asks the store to delete unused
// uploads older than the grace period, at most blockSize of them. The grace period is a property of uploads, not
// of the collector's schedule: two collectors configured with different tick periods (each jittered by an
// arbitrary random amount) apply the same grace period - an upload that is safe under one schedule is not
// collected early under another.
//
//verif:override math/rand.Intn
func verifRandIntn(n int) int {
	r := verifNondetInt("rand")
	verifAssume(r >= 0 && r < n)
	return r
}

func verifRunGcOnce(period time.Duration, blockSize int) (grace time.Duration, limit int, calls int) {
	verifFiles = &verifFilesT{}
	store.Files = verifFiles
	stop := largeFileRunGarbageCollection(period, blockSize)
	if verifIsSymbolicEngine() {
		// the collector's goroutine runs until it parks waiting for the next tick
		verifRunUntilBlocked(func() { verifRunSpawned() })
	} else {
		for i := 0; i < 400 && verifFiles.gcCalls() == 0; i++ {
			time.Sleep(time.Millisecond)
		}
		stop <- true
	}
	calls = verifFiles.gcCalls()
	if calls > 0 {
		grace, limit = verifFiles.gcGrace[0], verifFiles.gcLimit[0]
	}
	return
}

func Harness_C16_gc_grace_period() {
	verifNewStore()
	verifInitGlobals()
	// tick periods: around 20 ms and around 40 ms (small so that the native replay sees a tick; the jittered
	// ranges 0.75p..1.25p of the two do not overlap)
	p1 := time.Duration(verifNondetI64("period1"))
	p2 := time.Duration(verifNondetI64("period2"))
	verifAssume(p1 >= 20*time.Millisecond && p1 <= 21*time.Millisecond && p2 >= 40*time.Millisecond && p2 <= 41*time.Millisecond)
	block := 1 + verifChoose("blockSize", 3)
	g1, l1, c1 := verifRunGcOnce(p1, block)
	g2, l2, c2 := verifRunGcOnce(p2, block)
	verifAssert(c1 >= 1 && c2 >= 1, "collector-runs-on-a-tick")
	verifAssert(l1 == block && l2 == block, "collector-removes-at-most-the-configured-block")
	verifAssert(g1 > 0 && g2 > 0, "only-uploads-older-than-the-grace-period-are-collectable")
	d := g1 - g2
	verifAssert(d <= 2*time.Millisecond && d >= -2*time.Millisecond, "grace-period-does-not-depend-on-the-tick-schedule")
	verifReach("end")
}
