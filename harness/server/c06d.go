//go:build verif

package main

import (
	"github.com/tinode/chat/server/auth"
	"github.com/tinode/chat/server/store/types"
)

// C06 (deletion / description rights): only the owner can delete the topic for everybody or change
// its public description, default access and tags - whether the topic is loaded or not.

func verifTopicGone(fx *verifFixture, name string) bool {
	_, there := fx.store.topics[name]
	return !there
}

func Harness_C06_delete_topic_rights() {
	w := verifSubSetup(2)
	t := w.t
	fx := w.fx
	users := w.allUsers()
	actor := users[verifChoose("actor", len(users))]
	sess := w.sess[actor]
	online := verifNondetBool("topicLoaded")
	if online {
		fx.hub.topicPut(t.name, t)
	}
	ownerBefore := t.owner
	apud, in := t.perUser[actor]
	msg := &ClientComMessage{Id: "d1", AsUser: actor.UserId(), AuthLvl: int(auth.LevelAuth), Original: t.name, RcptTo: t.name,
		Timestamp: types.TimeNow(), sess: sess, init: true, MetaWhat: constMsgDelTopic,
		Del: &MsgClientDel{Id: "d1", Topic: t.name, What: "topic", Hard: verifNondetBool("hard")}}
	fx.hub.topicUnreg(sess, t.name, msg, StopDeleted)
	if online {
		// a non-owner's request is forwarded to the topic
		verifTopicDrainMeta(t)
	}
	if verifTopicGone(fx, t.name) {
		verifAssert(actor == ownerBefore, "only-the-owner-deletes-the-topic-for-everybody")
		verifAssert(in && (apud.modeWant&apud.modeGiven).IsOwner(), "deleting-requires-effective-ownership")
	} else {
		// nobody else lost their subscription
		for _, u := range w.members {
			if u != actor {
				s := fx.store.subs[verifSubKey(t.name, u)]
				verifAssert(s != nil && s.DeletedAt == nil, "other-members-keep-their-subscriptions")
			}
		}
	}
	verifReach("end")
}

func verifTopicDrainMeta(t *Topic) {
	for {
		select {
		case m := <-t.meta:
			t.handleMeta(m)
		default:
			return
		}
	}
}

// Only the owner changes public/trusted description, default access and tags of a group topic.
func Harness_C06_description_rights() {
	w := verifSubSetup(2)
	t := w.t
	fx := w.fx
	t.tags = []string{"alpha"}
	t.public = "public-v1"
	globals.maxTagCount = 8
	actor := w.members[verifChoose("actor", len(w.members))]
	sess := w.sess[actor]
	// the session's level: the trusted part of the description can be written by root-level sessions only - and,
	// like the rest of the description, only by the owner
	lvl := auth.LevelAuth
	if verifNondetBool("rootLevel") {
		lvl = auth.LevelRoot
		sess.authLvl = auth.LevelRoot
	}
	base := ClientComMessage{Id: "r1", AsUser: actor.UserId(), AuthLvl: int(lvl), Original: t.name, RcptTo: t.name,
		Timestamp: types.TimeNow(), sess: sess, init: true}
	auth0, anon0 := t.accessAuth, t.accessAnon
	switch verifChoose("what", 4) {
	case 3:
		msg := base
		msg.Set = &MsgClientSet{Id: "r1", Topic: t.name, MsgSetQuery: MsgSetQuery{Desc: &MsgSetDesc{Trusted: "trusted-v2"}}}
		msg.MetaWhat = constMsgMetaDesc
		t.handleMeta(&msg)
		if t.trusted != nil || fx.store.topics[t.name].Trusted != nil {
			verifAssert(actor == t.owner && lvl == auth.LevelRoot, "trusted-description-changed-only-by-the-owner-at-root-level")
		}
	case 0:
		msg := base
		msg.Set = &MsgClientSet{Id: "r1", Topic: t.name, MsgSetQuery: MsgSetQuery{Desc: &MsgSetDesc{Public: "public-v2"}}}
		msg.MetaWhat = constMsgMetaDesc
		t.handleMeta(&msg)
	case 1:
		msg := base
		msg.Set = &MsgClientSet{Id: "r1", Topic: t.name, MsgSetQuery: MsgSetQuery{Desc: &MsgSetDesc{DefaultAcs: &MsgDefaultAcsMode{Auth: "JR", Anon: "N"}}}}
		msg.MetaWhat = constMsgMetaDesc
		t.handleMeta(&msg)
	case 2:
		msg := base
		msg.Set = &MsgClientSet{Id: "r1", Topic: t.name, MsgSetQuery: MsgSetQuery{Tags: []string{"alpha", "gamma"}}}
		msg.MetaWhat = constMsgMetaTags
		t.handleMeta(&msg)
	}
	changed := t.public != "public-v1" || t.accessAuth != auth0 || t.accessAnon != anon0 || len(t.tags) != 1
	st := fx.store.topics[t.name]
	storeChanged := st.Public != nil || len(st.Tags) != 0 || st.Access.Auth != 0 || st.Access.Anon != 0
	if changed || storeChanged {
		verifAssert(actor == t.owner, "only-the-owner-changes-description-access-and-tags")
	}
	verifReach("end")
}

// {set sub} / {set desc private} sent to a topic that is NOT loaded: the hub answers from the store alone
// (replyOfflineTopicSetSub). The stored rows must keep exactly one owner, only the requester's own requested
// mode / private data may change, nobody's grant changes, and the request gets exactly one reply.
func Harness_C06_offline_set_sub() {
	w := verifSubSetup(2)
	t := w.t
	users := w.allUsers()
	actor := users[verifChoose("actor", len(users))]
	sess := verifNewSession("sid-offline", actor, auth.LevelAuth, 16)
	type row struct{ want, given types.AccessMode }
	before := map[types.Uid]row{}
	for _, u := range users {
		if sub := w.fx.store.subs[verifSubKey(t.name, u)]; sub != nil {
			before[u] = row{sub.ModeWant, sub.ModeGiven}
		}
	}
	msg := &ClientComMessage{Id: "r1", AsUser: actor.UserId(), AuthLvl: int(auth.LevelAuth), Original: t.name, RcptTo: t.name,
		Timestamp: types.TimeNow(), sess: sess, init: true, MetaWhat: constMsgMetaSub}
	set := &MsgClientSet{Id: "r1", Topic: t.name}
	if verifNondetBool("withSub") {
		set.Sub = &MsgSetSub{Mode: verifReqMode("mode")}
		switch verifChoose("subUser", 3) {
		case 1:
			set.Sub.User = actor.UserId()
		case 2:
			set.Sub.User = users[verifChoose("target", len(users))].UserId()
		}
	}
	if verifNondetBool("withPrivate") {
		set.Desc = &MsgSetDesc{Private: "mine"}
	}
	msg.Set = set
	replyOfflineTopicSetSub(sess, msg)
	replies := 0
	for _, r := range verifDrainSend(sess) {
		if r != nil && r.Ctrl != nil && r.Ctrl.Id == "r1" {
			replies++
		}
	}
	verifAssert(replies == 1, "offline-set-answered-exactly-once")
	owners := 0
	for _, u := range users {
		sub := w.fx.store.subs[verifSubKey(t.name, u)]
		b, had := before[u]
		verifAssert((sub != nil) == had, "offline-set-creates-or-removes-no-subscription")
		if sub == nil {
			continue
		}
		verifAssert(sub.ModeGiven == b.given, "offline-set-changes-no-grant")
		if u != actor {
			verifAssert(sub.ModeWant == b.want, "requested-mode-changed-only-by-its-user")
		}
		if sub.DeletedAt == nil && (sub.ModeWant & sub.ModeGiven).IsOwner() {
			owners++
			verifAssert(u == w.ownerBefore, "stored-owner-is-the-recorded-owner")
		}
		if u != w.ownerBefore {
			verifAssert(!sub.ModeWant.IsOwner(), "no-non-owner-requests-ownership")
		}
	}
	verifAssert(owners == 1, "exactly-one-stored-owner")
	verifReach("end")
}

// Creation of a group topic ({sub topic="new"}) through the real initTopicNewGrp with arbitrary default-access
// and own-mode texts: the creator is the one effective owner, and the topic's default access - what every later
// subscriber is granted - never contains ownership, whatever mix of valid and invalid texts was sent.
func Harness_C06_create_group() {
	verifNewStore()
	verifInitGlobals()
	creator := types.Uid(5)
	name := "grpNEWTOPIC001"
	t := &Topic{name: name, xoriginal: "new", perUser: map[types.Uid]perUserData{}, sessions: map[*Session]perSessionData{}}
	pool := []string{"", "JRWPS", "JRWPSO", "O", "xyz", "N"}
	defacs := &MsgDefaultAcsMode{Auth: pool[verifChoose("auth", len(pool))], Anon: pool[verifChoose("anon", len(pool))]}
	set := &MsgSetQuery{}
	if verifNondetBool("withDefacs") {
		set.Desc = &MsgSetDesc{DefaultAcs: defacs}
	}
	if m := []string{"", "JRWPASDO", "N", "RW", "xyz", "JRWPASD"}[verifChoose("ownMode", 6)]; m != "" {
		set.Sub = &MsgSetSub{Mode: m}
	}
	sreg := &ClientComMessage{Id: "r1", AsUser: creator.UserId(), AuthLvl: int(auth.LevelAuth), Original: "new", RcptTo: name,
		Timestamp: types.TimeNow(), init: true, Sub: &MsgClientSub{Id: "r1", Topic: "new", Set: set}}
	err := initTopicNewGrp(t, sreg, verifNondetBool("isChan"))
	if err == nil {
		verifAssert(!t.accessAuth.IsOwner() && !t.accessAnon.IsOwner(), "default-access-never-grants-ownership")
		verifAssert(t.accessAuth&^types.ModeBitmask == 0 && t.accessAnon&^types.ModeBitmask == 0, "default-access-is-a-valid-mode")
		verifAssert(t.owner == creator && len(t.perUser) == 1, "creator-is-the-only-member-and-the-recorded-owner")
		pud := t.perUser[creator]
		verifAssert((pud.modeWant & pud.modeGiven).IsOwner() && (pud.modeWant & pud.modeGiven).IsJoiner(), "creator-is-the-effective-owner")
		st := verifStore.topics[name]
		verifAssert(st != nil, "topic-row-created")
		if st != nil {
			verifAssert(st.Access.Auth == t.accessAuth && st.Access.Anon == t.accessAnon, "stored-default-access-equals-live")
		}
		sub := verifStore.subs[verifSubKey(name, creator)]
		verifAssert(sub != nil && sub.ModeWant == pud.modeWant && sub.ModeGiven == pud.modeGiven, "stored-owner-subscription-equals-live")
	} else {
		verifAssert(verifStore.topics[name] == nil, "refused-creation-stores-nothing")
	}
	verifReach("end")
}

// Unload and reload (the real initTopicGrp/loadSubscribers) with arbitrary stored modes: the reloaded topic's
// owner is the one subscriber whose EFFECTIVE mode (want & given) has O - a member who was merely offered
// ownership (O in given, not yet in want) or merely asks for it (O in want only) is not the owner, whichever
// order the store returns the rows in.
func Harness_C06_reload_keeps_the_owner() {
	fx := verifNewTopic(verifKindGrp, 3)
	name := fx.topic.name
	ownerIdx := verifChoose("ownerIndex", 3)
	owner := fx.uids[ownerIdx]
	fx.store.topics[name].Owner = owner.String()
	for i, u := range fx.uids {
		sub := fx.store.subs[verifSubKey(name, u)]
		if i == ownerIdx {
			sub.ModeWant, sub.ModeGiven = types.ModeCFull, types.ModeCFull
			continue
		}
		sub.ModeWant, sub.ModeGiven = verifMode("want"), verifMode("given")
		verifAssume(!(sub.ModeWant & sub.ModeGiven).IsOwner()) // exactly one effective owner in the store
	}
	t2 := &Topic{name: name, xoriginal: name, perUser: make(map[types.Uid]perUserData), sessions: make(map[*Session]perSessionData)}
	err := initTopicGrp(t2)
	verifAssert(err == nil, "reload-works")
	verifAssert(t2.owner == owner, "reloaded-topic-has-the-same-owner")
	n := 0
	for _, pud := range t2.perUser {
		if (pud.modeWant & pud.modeGiven).IsOwner() {
			n++
		}
	}
	verifAssert(n == 1, "reloaded-topic-has-exactly-one-owner")
	verifReach("end")
}
