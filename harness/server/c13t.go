//go:build verif

package main

import (
	"github.com/tinode/chat/server/auth"
	"github.com/tinode/chat/server/store/types"
)

// C13 (load failure): the hub forwards requests to a topic that is still loading; when the load fails the
// real topicInit must answer every one of them - each with an error that echoes ITS OWN id to ITS OWN session -
// and hand pending {sub} requests back to the hub.
func Harness_C13_topic_init_failure_answers_queued() {
	verifNewStore()
	hub := verifInitGlobals()
	name := []string{"grpAAAAAAAAAAB", "grpZZZ", "zzz"}[verifChoose("name", 3)] // none of them is in the store
	t := &Topic{name: name, xoriginal: name, status: topicStatusPaused,
		perUser: map[types.Uid]perUserData{}, sessions: map[*Session]perSessionData{},
		clientMsg: make(chan *ClientComMessage, 4), serverMsg: make(chan *ServerComMessage, 4), meta: make(chan *ClientComMessage, 4),
		reg: make(chan *ClientComMessage, 4), unreg: make(chan *ClientComMessage, 4), exit: make(chan *shutDown, 1)}
	hub.topicPut(name, t)
	mk := func(sid, id string, uid types.Uid) (*Session, *ClientComMessage) {
		s := verifNewSession(sid, uid, auth.LevelAuth, 8)
		s.inflightReqs = newBoundedWaitGroup(8)
		return s, &ClientComMessage{Id: id, AsUser: uid.UserId(), AuthLvl: int(auth.LevelAuth), Original: name, RcptTo: name,
			Timestamp: types.TimeNow(), sess: s, init: true}
	}
	sj, join := mk("sid-join", "join-1", types.Uid(1))
	join.Sub = &MsgClientSub{Id: "join-1", Topic: name}
	sj.inflightReqs.Add(1) // Session.subscribe took the slot when it handed the request to the hub
	var sPub, sLeave, sMeta, sReg *Session
	var pub, leave, meta, reg *ClientComMessage
	if verifNondetBool("queuedPub") {
		sPub, pub = mk("sid-pub", "pub-2", types.Uid(2))
		pub.Pub = &MsgClientPub{Id: "pub-2", Topic: name, Content: "x"}
		t.clientMsg <- pub
	}
	if verifNondetBool("queuedLeave") {
		sLeave, leave = mk("sid-leave", "leave-3", types.Uid(3))
		leave.Leave = &MsgClientLeave{Id: "leave-3", Topic: name}
		sLeave.inflightReqs.Add(1)
		t.unreg <- leave
	}
	if verifNondetBool("queuedMeta") {
		sMeta, meta = mk("sid-meta", "meta-4", types.Uid(4))
		switch verifChoose("metaKind", 3) {
		case 0:
			meta.Get = &MsgClientGet{Id: "meta-4", Topic: name, MsgGetQuery: MsgGetQuery{What: "desc"}}
		case 1:
			meta.Set = &MsgClientSet{Id: "meta-4", Topic: name}
		case 2:
			meta.Del = &MsgClientDel{Id: "meta-4", Topic: name, What: "topic"}
		}
		t.meta <- meta
	}
	if verifNondetBool("queuedSub") {
		sReg, reg = mk("sid-reg", "sub-5", types.Uid(5))
		reg.Sub = &MsgClientSub{Id: "sub-5", Topic: name}
		t.reg <- reg
	}
	var done chan bool
	if verifNondetBool("exitRequested") {
		done = make(chan bool, 1)
		t.exit <- &shutDown{reason: StopDeleted, done: done}
	}

	topicInit(t, join, hub)

	verifAssert(hub.topicGet(name) == nil, "failed-topic-dropped-from-the-hub")
	one := func(s *Session, id, label string) {
		if s == nil {
			return
		}
		out := verifDrainSend(s)
		verifAssert(len(out) == 1 && out[0] != nil && out[0].Ctrl != nil, label+"-answered-once")
		if len(out) == 1 && out[0] != nil && out[0].Ctrl != nil {
			verifAssert(out[0].Ctrl.Id == id, label+"-reply-echoes-its-own-id")
			verifAssert(out[0].Ctrl.Code >= 400, label+"-answered-with-an-error")
		}
	}
	one(sj, "join-1", "loading-request")
	verifAssert(len(sj.inflightReqs.sem) == 0, "loading-request-bookkeeping-released")
	one(sPub, "pub-2", "queued-publish")
	one(sLeave, "leave-3", "queued-leave")
	one(sMeta, "meta-4", "queued-meta-request")
	if sLeave != nil {
		verifAssert(len(sLeave.inflightReqs.sem) == 0, "queued-leave-bookkeeping-released")
	}
	if sReg != nil {
		verifAssert(len(hub.join) == 1 && len(verifDrainSend(sReg)) == 0, "queued-subscribe-handed-back-to-the-hub")
	} else {
		verifAssert(len(hub.join) == 0, "nothing-else-handed-to-the-hub")
	}
	if done != nil {
		verifAssert(len(done) == 1, "exit-request-confirmed")
	}
	verifReach("end")
}
