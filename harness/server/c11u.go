//go:build verif

package main

import (
	"github.com/tinode/chat/server/auth"
	"github.com/tinode/chat/server/store"
	"github.com/tinode/chat/server/store/types"
)

// C11 (account creation with login): {acc user="new" login=true} through the REAL replyCreateUser. A session
// that is already logged in - at any level, anonymous included - is never re-authenticated as the new account;
// an unauthenticated session ends up logged in as the new user exactly when it asked for it.
func Harness_C11_create_account_login() {
	verifNewStore()
	verifInitGlobals()
	store.Devices = verifDevices{}
	outcome := &verifAuthOutcome{level: auth.LevelAuth}
	// the authenticator may refuse the new record (password policy, malformed secret, duplicate, store failure)
	switch verifChoose("addRecord", 4) {
	case 1:
		outcome.addErr = types.ErrPolicy
	case 2:
		outcome.addErr = types.ErrDuplicate
	case 3:
		outcome.addErr = types.ErrInternal
	}
	verifInstallStoreObj(outcome)
	globals.authValidators = nil
	s := verifNewDispatchSession("sid-1")
	s.ver = minSupportedVersionValue
	switch verifChoose("authState", 4) {
	case 1:
		s.uid, s.authLvl = 5, auth.LevelAnon
	case 2:
		s.uid, s.authLvl = 5, auth.LevelAuth
	case 3:
		s.uid, s.authLvl = 5, auth.LevelRoot
	}
	uid0, lvl0 := s.uid, s.authLvl
	login := verifNondetBool("login")
	msg := &ClientComMessage{Acc: &MsgClientAcc{Id: "r1", User: "new", Scheme: "basic", Secret: []byte("alice:pwd"), Login: login},
		Id: "r1", Timestamp: types.TimeNow()}
	// credentials sent along: none, a known method, an unknown method (with or without a value), both
	globals.validators = map[string]credValidator{"email": {}}
	verifValidators = map[string]*verifValidator{"email": {}}
	switch verifChoose("creds", 5) {
	case 1:
		msg.Acc.Cred = []MsgCredClient{{Method: "email", Value: "a@b.c"}}
	case 2:
		msg.Acc.Cred = []MsgCredClient{{Method: "fax", Value: "x"}}
	case 3:
		msg.Acc.Cred = []MsgCredClient{{Method: "fax"}}
	case 4:
		msg.Acc.Cred = []MsgCredClient{{Method: "fax", Value: "x", Response: "123"}, {Method: "email", Value: "a@b.c"}}
	}
	s.dispatch(msg)
	replies := verifDrainSend(s)
	n, code := 0, 0
	for _, r := range replies {
		if r != nil && r.Ctrl != nil && r.Ctrl.Id == "r1" {
			n++
			code = r.Ctrl.Code
		}
	}
	verifAssert(n == 1, "account-request-answered-exactly-once")
	if outcome.addErr != nil {
		verifAssert(code >= 400, "refused-account-creation-answered-with-an-error")
		verifAssert(s.uid == uid0 && s.authLvl == lvl0, "refused-account-creation-does-not-authenticate")
	}
	if uid0 != 0 {
		verifAssert(s.uid == uid0 && s.authLvl == lvl0, "logged-in-session-is-never-re-authenticated")
		if login {
			verifAssert(code == 409, "login-with-new-account-refused-while-logged-in")
			verifAssert(len(verifStore.calls) == 0, "refused-account-request-creates-nothing")
		}
	} else if login {
		if code < 300 {
			verifAssert(s.uid != 0 && s.authLvl == auth.LevelAuth, "new-account-login-authenticates-the-session")
		} else {
			verifAssert(s.uid == 0 && s.authLvl == auth.LevelNone, "failed-account-request-leaves-the-session-unauthenticated")
		}
	} else {
		verifAssert(s.uid == 0 && s.authLvl == auth.LevelNone, "account-creation-without-login-does-not-authenticate")
	}
	verifReach("end")
}
