//go:build verif

package main

import (
	"github.com/tinode/chat/server/auth"
	"github.com/tinode/chat/server/store"
	"github.com/tinode/chat/server/store/types"
)

// C11 — one dispatch step of a session in an arbitrary handshake/authentication state.

const (
	verifKPub = iota
	verifKSub
	verifKLeave
	verifKHi
	verifKLogin
	verifKGet
	verifKSet
	verifKDel
	verifKAcc
	verifKNote
	verifKNone
	verifKCount
)

type verifDispatchWorld struct {
	s        *Session
	so       verifStoreObj
	outcome  *verifAuthOutcome
	kind     int
	msg      *ClientComMessage
	topic    string
	ver0     int
	uid0     types.Uid
	lvl0     auth.Level
	extraAs  string
	meTopic  *Topic // the session's attached topic (if any): channels to observe forwarding
	attached string // routable name of the attached topic
}

var verifTopicPool = []string{"me", "fnd", "usrAAAAAAAAAAE", "grpAAAAAAAAAAB", "new", "sys", "", "chnAAAAAAAAAAB"}

func verifDispatchSetup(kindFixed int) *verifDispatchWorld {
	w := &verifDispatchWorld{}
	verifNewStore()
	verifInitGlobals()
	store.Devices = verifDevices{}
	verifAccCalls = nil
	w.outcome = &verifAuthOutcome{}
	w.so = verifInstallStoreObj(w.outcome)
	s := verifNewDispatchSession("sid-1")
	w.s = s
	// handshake state
	if verifNondetBool("handshaken") {
		s.ver = minSupportedVersionValue
	}
	// authentication state
	switch verifChoose("authState", 4) {
	case 0: // anonymous connection
	case 1:
		s.uid, s.authLvl = 5, auth.LevelAnon
	case 2:
		s.uid, s.authLvl = 5, auth.LevelAuth
	case 3:
		s.uid, s.authLvl = 5, auth.LevelRoot
	}
	w.ver0, w.uid0, w.lvl0 = s.ver, s.uid, s.authLvl
	w.kind = kindFixed
	if kindFixed < 0 {
		w.kind = verifChoose("kind", verifKCount)
	}
	topical := w.kind != verifKLogin && w.kind != verifKHi && w.kind != verifKAcc && w.kind != verifKNone
	// the session may be attached to a group topic
	if topical && !s.uid.IsZero() && verifNondetBool("attachedToGrp") {
		t := &Topic{name: "grpAAAAAAAAAAB", clientMsg: make(chan *ClientComMessage, 8), meta: make(chan *ClientComMessage, 8),
			unreg: make(chan *ClientComMessage, 8), supd: make(chan *sessionUpdate, 8)}
		w.meTopic = t
		w.attached = t.name
		s.subs[t.name] = &Subscription{broadcast: t.clientMsg, done: t.unreg, meta: t.meta, supd: t.supd}
	}
	if topical {
		w.topic = verifTopicPool[verifChoose("topic", len(verifTopicPool))]
	}
	msg := &ClientComMessage{}
	switch w.kind {
	case verifKPub:
		msg.Pub = &MsgClientPub{Id: "r1", Topic: w.topic, Content: "x", Head: map[string]any{"sender": "usrFORGED"}}
	case verifKSub:
		msg.Sub = &MsgClientSub{Id: "r1", Topic: w.topic}
	case verifKLeave:
		msg.Leave = &MsgClientLeave{Id: "r1", Topic: w.topic, Unsub: verifNondetBool("unsub")}
	case verifKHi:
		msg.Hi = &MsgClientHi{Id: "r1", Version: []string{"0.22", "0.10", "", "junk", "0.23"}[verifChoose("ver", 5)]}
	case verifKLogin:
		msg.Login = &MsgClientLogin{Id: "r1", Scheme: []string{"basic", "token", "unknown"}[verifChoose("scheme", 3)], Secret: []byte("s")}
	case verifKGet:
		msg.Get = &MsgClientGet{Id: "r1", Topic: w.topic, MsgGetQuery: MsgGetQuery{What: []string{"desc", "sub data", "junk", ""}[verifChoose("what", 4)]}}
	case verifKSet:
		msg.Set = &MsgClientSet{Id: "r1", Topic: w.topic}
		if verifNondetBool("setDesc") {
			msg.Set.Desc = &MsgSetDesc{}
		}
		if verifNondetBool("setTags") {
			msg.Set.Tags = []string{"abc"}
		}
	case verifKDel:
		msg.Del = &MsgClientDel{Id: "r1", Topic: w.topic, What: []string{"msg", "topic", "sub", "user", "cred", "junk"}[verifChoose("delWhat", 6)]}
	case verifKAcc:
		msg.Acc = &MsgClientAcc{Id: "r1", User: []string{"new", "", "usrAAAAAAAAAAE"}[verifChoose("accUser", 3)]}
	case verifKNote:
		msg.Note = &MsgClientNote{Topic: w.topic, What: []string{"read", "recv", "kp", "junk"}[verifChoose("noteWhat", 4)], SeqId: verifNondetInt("noteSeq")}
	}
	nExtra := 6
	if w.kind == verifKLogin {
		nExtra = 1
	}
	switch verifChoose("extra", nExtra) {
	case 0:
	case 1:
		w.extraAs = "usrAAAAAAAAAAI"
		msg.Extra = &MsgClientExtra{AsUser: w.extraAs}
	case 2:
		w.extraAs = "usrAAAAAAAAAAI"
		msg.Extra = &MsgClientExtra{AsUser: w.extraAs, AuthLevel: "root"}
	case 3:
		w.extraAs = "not-a-user-id"
		msg.Extra = &MsgClientExtra{AsUser: w.extraAs}
	case 4:
		// the session names its own user and asks for another level
		w.extraAs = w.uid0.UserId()
		msg.Extra = &MsgClientExtra{AsUser: w.extraAs, AuthLevel: "root"}
	case 5:
		w.extraAs = w.uid0.UserId()
		msg.Extra = &MsgClientExtra{AsUser: w.extraAs}
	}
	w.msg = msg
	return w
}

type verifDispatchOut struct {
	replies   []*ServerComMessage
	nErr      int
	forwarded []*ClientComMessage
	unregs    int
}

func (w *verifDispatchWorld) collect() verifDispatchOut {
	var o verifDispatchOut
	o.replies = verifDrainSend(w.s)
	for _, r := range o.replies {
		if r != nil && r.Ctrl != nil && r.Ctrl.Code >= 400 {
			o.nErr++
		}
	}
	drain := func(ch chan *ClientComMessage) {
		for {
			select {
			case m := <-ch:
				o.forwarded = append(o.forwarded, m)
			default:
				return
			}
		}
	}
	drain(globals.hub.join)
	drain(globals.hub.routeCli)
	drain(globals.hub.meta)
	if w.meTopic != nil {
		drain(w.meTopic.clientMsg)
		drain(w.meTopic.meta)
		drain(w.meTopic.unreg)
	}
	for {
		select {
		case u := <-globals.hub.unreg:
			o.unregs++
			if u.pkt != nil {
				o.forwarded = append(o.forwarded, u.pkt)
			}
		default:
			return o
		}
	}
}

func (w *verifDispatchWorld) noEffect(o verifDispatchOut, label string) {
	s := w.s
	verifAssert(len(o.forwarded) == 0 && o.unregs == 0, label+": nothing-forwarded")
	verifAssert(len(verifStore.calls) == 0, label+": no-store-write")
	verifAssert(len(verifAccCalls) == 0, label+": no-account-operation")
	verifAssert(s.ver == w.ver0 && s.uid == w.uid0 && s.authLvl == w.lvl0, label+": session-state-unchanged")
	for _, h := range w.so.handlers {
		verifAssert(h.calls == 0, label+": no-authentication-attempt")
	}
}

// State table of the property for requests other than {login}.
func harnessC11Dispatch(kindFixed int) {
	w := verifDispatchSetup(kindFixed)
	verifAssume(w.kind != verifKLogin)
	s := w.s
	s.dispatch(w.msg)
	o := w.collect()

	onBehalf := w.msg.Extra != nil && w.msg.Extra.AsUser != ""
	switch {
	case w.kind == verifKNone:
		verifAssert(o.nErr == 1 && len(o.replies) == 1, "empty-message-gets-error")
		w.noEffect(o, "empty")
	case onBehalf && w.lvl0 != auth.LevelRoot:
		// only a root session may act on behalf of another user
		verifAssert(o.nErr == 1 && len(o.replies) == 1, "non-root-on-behalf-refused")
		w.noEffect(o, "on-behalf")
	case onBehalf && w.extraAs == "not-a-user-id":
		verifAssert(o.nErr == 1 && len(o.replies) == 1, "malformed-on-behalf-refused")
		w.noEffect(o, "on-behalf-malformed")
	case w.ver0 == 0 && w.kind != verifKHi:
		// before the handshake everything else is refused; notes are dropped silently
		if w.kind == verifKNote {
			verifAssert(len(o.replies) == 0, "note-before-handshake-dropped-silently")
		} else {
			verifAssert(o.nErr == 1 && len(o.replies) == 1, "request-before-handshake-refused")
		}
		w.noEffect(o, "before-handshake")
	case w.uid0 == 0 && !onBehalf && w.kind != verifKHi && w.kind != verifKAcc:
		// before login everything other than handshake, account creation and login is refused
		if w.kind == verifKNote {
			verifAssert(len(o.replies) == 0, "note-before-login-dropped-silently")
		} else {
			verifAssert(o.nErr == 1 && len(o.replies) == 1, "request-before-login-refused")
		}
		w.noEffect(o, "before-login")
	default:
		// permitted: authentication state never changes; version only by the first handshake
		verifAssert(s.uid == w.uid0 && s.authLvl == w.lvl0, "auth-state-changes-only-by-login")
		if w.kind != verifKHi || w.ver0 != 0 {
			verifAssert(s.ver == w.ver0, "version-fixed-after-handshake")
		}
		// every forwarded request is executed as the logged-in user at the logged-in level,
		// unless the session is root
		for _, f := range o.forwarded {
			if w.lvl0 != auth.LevelRoot {
				verifAssert(f.AsUser == w.uid0.UserId() && f.AuthLvl == int(w.lvl0), "forwarded-as-the-logged-in-user")
			} else if onBehalf {
				verifAssert(f.AsUser == w.extraAs, "root-acts-as-the-named-user")
			}
			if f.Pub != nil {
				_, forged := f.Pub.Head["sender"]
				if !onBehalf || w.extraAs == w.uid0.UserId() {
					// (a root session naming itself acts as itself: no sender header at all)
					verifAssert(!forged, "client-sender-header-never-survives")
				} else {
					verifAssert(f.Pub.Head["sender"] == w.uid0.UserId(), "sender-header-is-the-servers-own")
				}
			}
		}
		if w.kind != verifKNote {
			verifAssert(len(o.replies)+len(o.forwarded)+o.unregs >= 1, "request-answered-or-forwarded")
		}
	}
	verifReach("end")
}

func Harness_C11_dispatch_any() { harnessC11Dispatch(-1) }

// {login}: the session ends up authenticated iff everything the property lists succeeded, at most once.
func Harness_C11_login() {
	w := verifDispatchSetup(verifKLogin)
	s := w.s
	verifAssume(w.msg.Extra == nil)
	o := w.outcome
	switch verifChoose("authErr", 4) {
	case 0:
	case 1:
		o.err = types.ErrFailed
	case 2:
		o.err = types.ErrExpired
	case 3:
		o.err = types.ErrInternal
	}
	o.uid = 42
	o.level = auth.Level(verifNondetU8("recLevel"))
	verifAssume(o.level == auth.LevelAnon || o.level == auth.LevelAuth || o.level == auth.LevelRoot)
	o.features = auth.Feature(verifNondetU16("features"))
	o.state = []types.ObjState{types.StateOK, types.StateSuspended, types.StateDeleted, types.StateUndefined}[verifChoose("recState", 4)]
	if verifNondetBool("challenge") {
		o.challenge = []byte("challenge")
	}
	// stored user state consulted when the authenticator leaves it undefined
	switch verifChoose("userRow", 4) {
	case 0:
	case 1:
		verifStore.users[42] = &types.User{State: types.StateOK}
	case 2:
		verifStore.users[42] = &types.User{State: types.StateSuspended}
	case 3:
		verifStore.users[42] = &types.User{State: types.StateDeleted}
	}
	// credential validation requirement
	needCred := verifNondetBool("needCred")
	if needCred {
		globals.authValidators = map[auth.Level][]string{auth.LevelAuth: {"email"}, auth.LevelAnon: {"email"}, auth.LevelRoot: {"email"}}
	}
	// responses to credential challenges sent along with the login: none, for a known method, for an unknown one
	respondedOK := false
	if needCred {
		globals.validators = map[string]credValidator{"email": {}}
		verifValidators = map[string]*verifValidator{"email": {}}
		switch verifChoose("loginCreds", 3) {
		case 1:
			// the fake validator accepts every response: the credential gets validated by this very login
			w.msg.Login.Cred = []MsgCredClient{{Method: "email", Response: "123456"}}
			respondedOK = true
		case 2:
			w.msg.Login.Cred = []MsgCredClient{{Method: "fax", Response: "123456"}}
		}
	}
	// the lookup of already validated credentials may fail (store fault): the login fails with it
	verifCredsLookupFails = needCred && verifNondetBool("credsLookupFails")
	s.dispatch(w.msg)
	out := w.collect()

	scheme := w.msg.Login.Scheme
	effState := o.state
	if o.state == types.StateUndefined {
		if u := verifStore.users[42]; u != nil {
			effState = u.State
		} else {
			effState = types.StateUndefined
		}
	}
	missingCreds := needCred && o.features&auth.FeatureValidated == 0 && !(respondedOK && !verifCredsLookupFails)
	if needCred && o.features&auth.FeatureValidated == 0 && verifCredsLookupFails {
		// whether credentials are missing could not be established
		verifAssert(w.uid0 != 0 || (s.uid == 0 && s.authLvl == auth.LevelNone), "login-with-unverifiable-credentials-leaves-session-unauthenticated")
	}
	shouldLogin := w.ver0 != 0 && w.uid0 == 0 && scheme != "unknown" && o.err == nil &&
		effState == types.StateOK && o.challenge == nil && !missingCreds && o.features&auth.FeatureNoLogin == 0
	if w.uid0 != 0 {
		verifAssert(s.uid == w.uid0 && s.authLvl == w.lvl0, "login-at-most-once")
		verifAssert(out.nErr == 1, "second-login-refused")
		for _, h := range w.so.handlers {
			verifAssert(h.calls == 0, "second-login-not-attempted")
		}
	} else if shouldLogin {
		verifAssert(s.uid == 42 && s.authLvl == o.level, "session-authenticated-as-the-record-says")
	} else {
		verifAssert(s.uid == 0 && s.authLvl == auth.LevelNone, "failed-login-leaves-session-unauthenticated")
	}
	// A token handed out while credentials still await validation must not say "validated": logging in with it
	// would skip the validation the first login was refused for.
	if tok := w.so.handlers["token"]; tok != nil && tok.lastGen != nil && w.uid0 == 0 && missingCreds {
		verifAssert(tok.lastGen.Features&auth.FeatureValidated == 0, "token-issued-before-validation-is-not-marked-validated")
	}
	verifAssert(s.ver == w.ver0, "version-fixed")
	verifAssert(len(out.replies) == 1, "login-answered-once")
	verifReach("end")
}

// {hi} with an arbitrary version string: the version is fixed by the first successful handshake,
// never lowered below the supported minimum, and cannot be changed afterwards.
func Harness_C11_hello_version() {
	verifNewStore()
	verifInitGlobals()
	store.Devices = verifDevices{}
	verifInstallStoreObj(&verifAuthOutcome{})
	s := verifNewDispatchSession("sid-1")
	if verifNondetBool("handshaken") {
		s.ver = minSupportedVersionValue
	}
	ver0 := s.ver
	v := verifNondetString("version", 0, 5, "0129.v")
	s.dispatch(&ClientComMessage{Hi: &MsgClientHi{Id: "h1", Version: v}})
	replies := verifDrainSend(s)
	verifAssert(len(replies) == 1 && replies[0].Ctrl != nil, "handshake-answered-once")
	code := 0
	if len(replies) == 1 && replies[0].Ctrl != nil {
		code = replies[0].Ctrl.Code
	}
	if ver0 != 0 {
		verifAssert(s.ver == ver0, "version-cannot-change-after-handshake")
		if v != "" && parseVersion(v) != ver0 {
			verifAssert(code >= 400, "version-change-refused")
		}
	} else {
		verifAssert(s.ver == 0 || versionCompare(s.ver, minSupportedVersionValue) >= 0, "unsupported-version-never-adopted")
		verifAssert((s.ver == 0) == (code >= 400), "handshake-refused-iff-no-version-adopted")
		if s.ver != 0 {
			verifAssert(s.ver == parseVersion(v), "adopted-version-is-the-offered-one")
		}
	}
	verifAssert(s.uid == 0 && s.authLvl == auth.LevelNone, "handshake-never-authenticates")
	verifReach("end")
}
