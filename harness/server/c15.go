//go:build verif

package main

import (
	"time"

	"github.com/tinode/chat/server/auth"
	"github.com/tinode/chat/server/store/types"
)

// C15 — one step of the call state machine of a p2p topic from an arbitrary call state.

type verifCallWorld struct {
	fx    *verifFixture
	t     *Topic
	a, b  types.Uid
	sess  []*Session // A1, A2, B1, B2, C1
	uids  []types.Uid
	state int // 0 none, 1 ringing (A1 -> B), 2 active (A1 <-> B1)
	seq   int
}

const verifCallContent = "call-content"

func verifCallSetup() *verifCallWorld {
	w := &verifCallWorld{}
	fx := verifNewTopic(verifKindP2P, 2)
	w.fx, w.t = fx, fx.topic
	t := w.t
	w.a, w.b = fx.uids[0], fx.uids[1]
	globals.iceServers = []iceServer{{Urls: []string{"stun:x"}}}
	globals.callEstablishmentTimeout = 30
	if !verifNondetBool("callsConfigured") {
		globals.iceServers = nil
	}
	t.lastID = verifSeq("lastID")
	fx.store.topics[t.name].SeqId = t.lastID
	w.uids = []types.Uid{w.a, w.a, w.b, w.b, verifStranger}
	names := []string{"sid-A1", "sid-A2", "sid-B1", "sid-B2", "sid-C1"}
	for i, u := range w.uids {
		s := verifNewSession(names[i], u, auth.LevelAuth, 32)
		s.inflightReqs = newBoundedWaitGroup(8)
		w.sess = append(w.sess, s)
		if i < 4 {
			fx.attach(s, u, false)
		}
	}
	w.state = verifChoose("callState", 3)
	if w.state > 0 {
		// the invitation's id: a few concrete values (number formatting is not the subject), anywhere below lastID
		w.seq = []int{1, 9, 10, 12345}[verifChoose("callSeq", 4)]
		verifAssume(w.seq <= t.lastID)
		t.currentCall = &videoCall{parties: map[string]callPartyData{}, seq: w.seq, content: verifCallContent, contentMime: "application/x-tinode-webrtc"}
		t.currentCall.parties["sid-A1"] = callPartyData{uid: w.a, isOriginator: true, sess: w.sess[0]}
		if w.state == 2 {
			t.currentCall.parties["sid-B1"] = callPartyData{uid: w.b, isOriginator: false, sess: w.sess[2]}
			t.currentCall.acceptedAt = time.Now()
		}
	}
	// INV_call (timer part): the establishment timer runs exactly while a call is ringing (not yet accepted)
	t.callEstablishmentTimer = time.NewTimer(time.Hour)
	if w.state != 1 {
		t.callEstablishmentTimer.Stop()
	}
	return w
}

// verifTimerActive reports whether the timer is running (works on a real timer too).
func verifTimerActive(tm *time.Timer) bool {
	if tm.Stop() {
		tm.Reset(time.Hour)
		return true
	}
	return false
}

// the establishment timer runs exactly while an unaccepted call exists: a ringing call always times out,
// and nothing times out an accepted or finished call
func (w *verifCallWorld) assertTimer() {
	t := w.t
	ringing := t.currentCall != nil && t.currentCall.acceptedAt.IsZero()
	verifAssert(verifTimerActive(t.callEstablishmentTimer) == ringing, "establishment-timer-runs-exactly-while-ringing")
}

type verifCallObs struct {
	queues [][]*ServerComMessage
	rows   []types.Message
	hub    []*ServerComMessage
}

func (w *verifCallWorld) observe(oldRows int) verifCallObs {
	var o verifCallObs
	for _, s := range w.sess {
		o.queues = append(o.queues, verifDrainSend(s))
	}
	o.rows = w.fx.store.msgs[oldRows:]
	o.hub = verifDrainHub(w.fx.hub)
	verifDrainUsersUpdate()
	return o
}

func (o *verifCallObs) nothingHappened() bool {
	for _, q := range o.queues {
		if len(q) != 0 {
			return false
		}
	}
	return len(o.rows) == 0 && len(o.hub) == 0
}

// infos counts {info what=call event=ev} messages in a queue.
func verifCountInfo(q []*ServerComMessage, ev string) int {
	n := 0
	for _, m := range q {
		if m != nil && m.Info != nil && m.Info.What == "call" && m.Info.Event == ev {
			n++
		}
	}
	return n
}

func (w *verifCallWorld) assertEnded(o verifCallObs, how string, oldLast int) {
	t := w.t
	verifAssert(t.currentCall == nil, "call-ended")
	verifAssert(len(o.rows) == 1, "ending-published-exactly-once")
	if len(o.rows) == 1 {
		r := o.rows[0]
		verifAssert(r.SeqId == oldLast+1, "ending-is-a-new-message")
		verifAssert(r.Head["webrtc"] == how, "ending-kind: "+how)
		verifAssert(r.Head["replace"] == ":"+itoa(w.seq), "ending-references-the-invitation")
		verifAssert(r.Content == verifCallContent, "ending-carries-invitation-content")
		verifAssert(r.From == w.a.String(), "ending-authored-by-the-originator")
	}
}

func itoa(n int) string {
	if n == 0 {
		return "0"
	}
	var b []byte
	for n > 0 {
		b = append([]byte{byte('0' + n%10)}, b...)
		n /= 10
	}
	return string(b)
}

// ---- call events ({note what=call})
func Harness_C15_event_step() {
	w := verifCallSetup()
	t := w.t
	from := verifChoose("fromSession", 5)
	s := w.sess[from]
	uid := w.uids[from]
	ev := []string{"ringing", "accept", "offer", "answer", "ice-candidate", "hang-up", "junk"}[verifChoose("event", 7)]
	seq := verifNondetInt("eventSeq")
	oldRows, oldLast := len(w.fx.store.msgs), t.lastID
	oldState := w.state
	orig := uid.UserId()
	if uid == w.a {
		orig = w.b.UserId()
	} else if uid == w.b {
		orig = w.a.UserId()
	}
	msg := &ClientComMessage{
		Note:      &MsgClientNote{Topic: orig, What: "call", Event: ev, SeqId: seq, Payload: []byte(`"sdp"`)},
		AsUser:    uid.UserId(),
		AuthLvl:   int(auth.LevelAuth),
		Original:  orig,
		RcptTo:    t.name,
		Timestamp: types.TimeNow(),
		sess:      s,
		init:      true,
	}
	t.handleClientMsg(msg)
	o := w.observe(oldRows)

	isMember := uid == w.a || uid == w.b
	relevant := oldState != 0 && seq == w.seq && isMember
	if !relevant {
		// no call, a different or finished call, or a stranger: ignored
		verifAssert(o.nothingHappened(), "stale-or-foreign-event-ignored")
		verifAssert(t.lastID == oldLast, "stale-or-foreign-event-ignored: no message")
		if oldState == 0 {
			verifAssert(t.currentCall == nil, "no-call-stays-no-call")
		} else {
			verifAssert(t.currentCall != nil && len(t.currentCall.parties) == oldState, "call-state-unchanged")
		}
		w.assertTimer()
	verifReach("end")
		return
	}
	switch ev {
	case "ringing", "accept":
		ok := oldState == 1 && uid == w.b
		if !ok {
			verifAssert(o.nothingHappened() && t.currentCall != nil && len(t.currentCall.parties) == oldState, "ringing-accept-only-from-the-callee-while-ringing")
			break
		}
		// relayed to the originator's session alone
		verifAssert(verifCountInfo(o.queues[0], ev) == 1, "relayed-to-the-originator-session")
		for i := 1; i < 5; i++ {
			verifAssert(verifCountInfo(o.queues[i], ev) == 0, "relayed-to-nobody-else")
		}
		if ev == "ringing" {
			verifAssert(len(o.rows) == 0 && len(t.currentCall.parties) == 1, "ringing-changes-nothing")
		} else {
			verifAssert(len(t.currentCall.parties) == 2, "accept-adds-the-callee-session")
			_, in := t.currentCall.parties[s.sid]
			verifAssert(in, "accepting-session-is-the-party")
			verifAssert(len(o.rows) == 1, "acceptance-published-once")
			if len(o.rows) == 1 {
				r := o.rows[0]
				verifAssert(r.Head["webrtc"] == "accepted" && r.Head["replace"] == ":"+itoa(w.seq), "acceptance-replaces-the-invitation")
				verifAssert(r.Content == verifCallContent && r.From == w.a.String(), "acceptance-carries-invitation-content-and-author")
			}
		}
	case "offer", "answer", "ice-candidate":
		party := from == 0 || from == 2
		if oldState != 2 || !party {
			verifAssert(o.nothingHappened(), "media-events-only-between-the-two-party-sessions")
			break
		}
		other := 2
		if from == 2 {
			other = 0
		}
		verifAssert(verifCountInfo(o.queues[other], ev) == 1, "relayed-to-the-other-party-session")
		for i := 0; i < 5; i++ {
			if i != other {
				verifAssert(len(o.queues[i]) == 0, "relayed-to-nobody-else")
			}
		}
		verifAssert(len(o.rows) == 0 && len(t.currentCall.parties) == 2, "media-events-change-no-state")
	case "hang-up":
		switch oldState {
		case 2:
			if from == 0 || from == 2 {
				w.assertEnded(o, "finished", oldLast)
			} else {
				verifAssert(len(o.rows) == 0 && t.currentCall != nil, "hang-up-of-active-call-only-from-a-party-session")
			}
		case 1:
			if from == 0 {
				w.assertEnded(o, "missed", oldLast)
			} else if uid == w.b {
				w.assertEnded(o, "declined", oldLast)
			} else {
				verifAssert(len(o.rows) == 0 && t.currentCall != nil, "callers-other-session-cannot-end-the-ringing-call")
			}
		}
	default:
		verifAssert(o.nothingHappened() && t.currentCall != nil, "unknown-event-ignored")
	}
	w.assertTimer()
	verifReach("end")
}

// ---- invitation ({pub head.webrtc=...})
func Harness_C15_invite_step() {
	w := verifCallSetup()
	t := w.t
	from := verifChoose("fromSession", 5)
	if from == 4 {
		// a root session attached to the topic on behalf of user A places the call for A
		sr := verifNewSession("sid-root", verifRootUid, auth.LevelRoot, 32)
		sr.inflightReqs = newBoundedWaitGroup(8)
		w.fx.attach(sr, w.a, false)
		w.sess[4], w.uids[4] = sr, w.a
	}
	s := w.sess[from]
	uid := w.uids[from]
	// the caller's write permission is arbitrary
	pud := t.perUser[uid]
	pud.modeWant, pud.modeGiven = verifMode("want"), verifMode("given")
	t.perUser[uid] = pud
	oldRows, oldLast := len(w.fx.store.msgs), t.lastID
	oldCall := t.currentCall
	other := w.b
	if uid == w.b {
		other = w.a
	}
	// header values are whatever JSON the client sent: a string, a number, null, a list, an object, a flag, or absent
	head := map[string]any{"webrtc": "started", "mime": "application/x-tinode-webrtc"}
	switch verifChoose("mimeShape", 7) {
	case 1:
		head["mime"] = float64(42)
	case 2:
		head["mime"] = nil
	case 3:
		head["mime"] = []any{"a"}
	case 4:
		head["mime"] = map[string]any{"a": "b"}
	case 5:
		head["mime"] = true
	case 6:
		delete(head, "mime")
	}
	msg := &ClientComMessage{
		Pub:       &MsgClientPub{Id: "c1", Topic: other.UserId(), Head: head, Content: verifCallContent},
		Id:        "c1",
		AsUser:    uid.UserId(),
		AuthLvl:   int(auth.LevelAuth),
		Original:  other.UserId(),
		RcptTo:    t.name,
		Timestamp: types.TimeNow(),
		sess:      s,
		init:      true,
	}
	t.handleClientMsg(msg)
	o := w.observe(oldRows)
	writer := (pud.modeWant & pud.modeGiven).IsWriter()
	configured := len(globals.iceServers) > 0
	should := configured && writer && w.state == 0
	code := 0
	for _, m := range o.queues[from] {
		if m != nil && m.Ctrl != nil && m.Ctrl.Id == "c1" {
			code = m.Ctrl.Code
		}
	}
	if should {
		verifAssert(code == 202, "invitation-accepted")
		verifAssert(t.currentCall != nil && t.currentCall.seq == oldLast+1 && len(t.currentCall.parties) == 1, "call-started-with-the-invitations-id")
		if t.currentCall != nil {
			p, ok := t.currentCall.parties[s.sid]
			verifAssert(ok && p.isOriginator && p.uid == uid, "inviting-session-is-the-originator")
		}
	} else {
		verifAssert(code >= 400, "invitation-refused")
		if w.state != 0 && configured {
			verifAssert(code == 486, "second-invitation-answered-busy")
		}
		verifAssert(len(o.rows) == 0 && t.lastID == oldLast && t.currentCall == oldCall, "refused-invitation-leaves-no-trace")
		for i := range w.sess {
			if i != from {
				verifAssert(len(o.queues[i]) == 0, "refused-invitation-reaches-nobody")
			}
		}
		verifAssert(len(o.hub) == 0, "refused-invitation-no-presence")
	}
	w.assertTimer()
	verifReach("end")
}

// ---- a party session leaves / the establishment timer fires
func Harness_C15_leave_timeout_step() {
	w := verifCallSetup()
	t := w.t
	verifAssume(w.state != 0)
	oldRows, oldLast := len(w.fx.store.msgs), t.lastID
	what := verifChoose("what", 5) // 0..3: session i leaves, 4: timer
	if what == 4 {
		t.terminateCallInProgress(true)
	} else {
		s := w.sess[what]
		if verifNondetBool("connectionDropped") {
			// the whole session goes away: the topic gets a bare notice without a request or an acting user
			t.unregisterSession(&ClientComMessage{sess: s, init: false})
		} else {
			s.inflightReqs.Add(1)
			t.unregisterSession(&ClientComMessage{Leave: &MsgClientLeave{Id: "l1", Topic: w.uids[what^2].UserId()}, Id: "l1",
				AsUser: w.uids[what].UserId(), Original: w.uids[what^2].UserId(), RcptTo: t.name, Timestamp: types.TimeNow(), sess: s, init: true})
		}
	}
	o := w.observe(oldRows)
	isParty := what == 0 || (what == 2 && w.state == 2)
	switch {
	case what == 4:
		w.assertEnded(o, "missed", oldLast)
	case isParty:
		w.assertEnded(o, "disconnected", oldLast)
	default:
		verifAssert(t.currentCall != nil && len(o.rows) == 0, "non-party-leaving-does-not-end-the-call")
	}
	// once ended, a further ending event has no effect
	if t.currentCall == nil {
		rows := len(w.fx.store.msgs)
		t.terminateCallInProgress(true)
		verifAssert(len(w.fx.store.msgs) == rows, "call-ends-exactly-once")
	}
	w.assertTimer()
	verifReach("end")
}

// ---- the ending cannot be recorded: the store refuses the finalizing message, or the originator has lost its
// permission to publish in the meantime. "Every call that was started ends exactly once ... after which a new
// call can be started": the call is over nevertheless - no call is left "in progress", nothing keeps timing
// it, the other party is told it is over, and the next invitation is not answered 'busy'.
func Harness_C15_ending_survives_a_failed_write() {
	w := verifCallSetup()
	t := w.t
	verifAssume(w.state != 0 && globals.iceServers != nil)
	if verifNondetBool("originatorLostWrite") {
		pud := t.perUser[w.a]
		pud.modeGiven = types.ModeCP2P &^ types.ModeWrite
		t.perUser[w.a] = pud
	} else {
		w.fx.store.failAt = 0
	}
	oldRows := len(w.fx.store.msgs)
	switch verifChoose("ending", 3) {
	case 0: // timeout
		t.terminateCallInProgress(true)
	case 1: // the originator's session goes away
		t.unregisterSession(&ClientComMessage{sess: w.sess[0], init: false})
	case 2: // the callee hangs up / declines
		msg := &ClientComMessage{
			Note:   &MsgClientNote{Topic: w.a.UserId(), What: "call", Event: "hang-up", SeqId: w.seq},
			AsUser: w.b.UserId(), AuthLvl: int(auth.LevelAuth), Original: w.a.UserId(), RcptTo: t.name,
			Timestamp: types.TimeNow(), sess: w.sess[2], init: true}
		t.handleClientMsg(msg)
	}
	w.fx.store.failAt = -1
	o := w.observe(oldRows)
	verifAssert(len(o.rows) == 0, "fixture: the finalizing write failed")
	verifAssert(t.currentCall == nil, "call-ended-although-the-ending-was-not-recorded")
	// the parties' sessions are told the call is over (hang-up), recorded or not
	told := 0
	for i := 0; i < 4; i++ {
		told += verifCountInfo(o.queues[i], "hang-up")
	}
	verifAssert(told >= 1, "parties-told-the-call-is-over")
	verifAssert(!verifTimerActive(t.callEstablishmentTimer), "nothing-times-a-finished-call")
	// a new call can be started (by the callee, who may publish)
	pud := t.perUser[w.b]
	verifAssume((pud.modeWant & pud.modeGiven).IsWriter())
	rows := len(w.fx.store.msgs)
	inv := &ClientComMessage{
		Pub:    &MsgClientPub{Id: "p9", Topic: w.a.UserId(), Head: map[string]any{"webrtc": "started", "mime": "application/x-tinode-webrtc"}, Content: "c2"},
		Id:     "p9", AsUser: w.b.UserId(), AuthLvl: int(auth.LevelAuth), Original: w.a.UserId(), RcptTo: t.name,
		Timestamp: types.TimeNow(), sess: w.sess[2], init: true}
	t.handleClientMsg(inv)
	busy := false
	for _, m := range verifDrainSend(w.sess[2]) {
		if m != nil && m.Ctrl != nil && m.Ctrl.Id == "p9" && m.Ctrl.Code >= 400 {
			busy = true
		}
	}
	verifAssert(!busy && len(w.fx.store.msgs) == rows+1 && t.currentCall != nil, "a-new-call-can-be-started-afterwards")
	verifReach("end")
}

// ---- a party's session stops draining its queue (dead connection) while the topic keeps sending: the topic
// drops the stuck session, which ends the call - once: one finalizing message, no call left, and the message
// that was being delivered keeps its own number.
func Harness_C15_stuck_party_is_dropped_once() {
	// natively Go visits the attached sessions in random order: the replay repeats the scenario
	n := 1
	if !verifIsSymbolicEngine() {
		n = 64
	}
	for i := 0; i < n; i++ {
		verifReplayPos = 0
		harnessC15StuckParty()
	}
}

func harnessC15StuckParty() {
	w := verifCallSetup()
	t := w.t
	verifAssume(w.state != 0 && globals.iceServers != nil)
	// the stuck party: the originator's session A1, or (active call) the callee's B1; its queue is full
	stuck := 0
	if w.state == 2 && verifNondetBool("calleeStuck") {
		stuck = 2
	}
	ss := w.sess[stuck]
	for len(ss.send) < cap(ss.send) {
		ss.send <- &ServerComMessage{Ctrl: &MsgServerCtrl{Code: 200}}
	}
	oldRows, oldLast := len(w.fx.store.msgs), t.lastID
	verifMaxRows = oldRows + 6
	verifMaxRowsLabel = "call-ends-exactly-once: no runaway finalizing messages"
	// the other user's second session (not a party) publishes an ordinary message
	from := 3 - stuck // B2 when A1 is stuck, A2 when B1 is stuck
	if stuck == 0 {
		from = 3
	} else {
		from = 1
	}
	uid := w.uids[from]
	peer := w.a
	if uid == w.a {
		peer = w.b
	}
	msg := &ClientComMessage{Pub: &MsgClientPub{Id: "p1", Topic: peer.UserId(), Content: "hello"}, Id: "p1",
		AsUser: uid.UserId(), AuthLvl: int(auth.LevelAuth), Original: peer.UserId(), RcptTo: t.name,
		Timestamp: types.TimeNow(), sess: w.sess[from], init: true}
	t.handleClientMsg(msg)
	rows := w.fx.store.msgs[oldRows:]
	verifAssert(t.currentCall == nil, "dropping-a-party-ends-the-call")
	_, still := t.sessions[ss]
	verifAssert(!still, "stuck-session-detached")
	verifAssert(len(rows) == 2, "one-message-and-one-ending")
	if len(rows) == 2 {
		verifAssert(rows[0].SeqId == oldLast+1 && rows[1].SeqId == oldLast+2, "numbers-unique-and-gapless")
		verifAssert(rows[0].Content == "hello" && rows[1].Head["webrtc"] == "disconnected", "the-ending-follows-the-message")
	}
	verifAssert(t.lastID == oldLast+len(rows), "topic-counter-matches-the-stored-rows")
	verifAssert(!verifTimerActive(t.callEstablishmentTimer), "nothing-times-a-finished-call")
	// every other attached session gets each message once, in increasing order of numbers
	for i, s := range w.sess {
		if s == ss || i == 4 {
			continue
		}
		last, copies := 0, 0
		for _, m := range verifDrainSend(s) {
			if m != nil && m.Data != nil {
				verifAssert(m.Data.SeqId > last, "copies-arrive-in-increasing-order-of-numbers")
				last = m.Data.SeqId
				copies++
			}
		}
		verifAssert(copies == 2, "attached-reader-gets-exactly-one-copy-of-each")
	}
	verifReach("end")
}

// ---- the callee accepts while the caller's session is stuck (dead connection, queue full): broadcasting the
// "accepted" replacement drops the caller's session, which ends the call at once. Whatever the order, the topic
// survives, no call is left behind, and every stored message has its own number.
func Harness_C15_accept_with_stuck_originator() {
	w := verifCallSetup()
	t := w.t
	verifAssume(w.state == 1 && globals.iceServers != nil)
	a1 := w.sess[0]
	for len(a1.send) < cap(a1.send) {
		a1.send <- &ServerComMessage{Ctrl: &MsgServerCtrl{Code: 200}}
	}
	oldRows, oldLast := len(w.fx.store.msgs), t.lastID
	verifMaxRows = oldRows + 6
	verifMaxRowsLabel = "call-ends-exactly-once: no runaway finalizing messages"
	ev := []string{"accept", "ringing"}[verifChoose("event", 2)]
	msg := &ClientComMessage{
		Note:   &MsgClientNote{Topic: w.a.UserId(), What: "call", Event: ev, SeqId: w.seq, Payload: []byte(`"sdp"`)},
		AsUser: w.b.UserId(), AuthLvl: int(auth.LevelAuth), Original: w.a.UserId(), RcptTo: t.name,
		Timestamp: types.TimeNow(), sess: w.sess[2], init: true}
	t.handleClientMsg(msg)
	rows := w.fx.store.msgs[oldRows:]
	for i, r := range rows {
		verifAssert(r.SeqId == oldLast+1+i, "numbers-unique-and-gapless")
	}
	verifAssert(t.lastID == oldLast+len(rows), "topic-counter-matches-the-stored-rows")
	if ev == "accept" {
		_, still := t.sessions[a1]
		verifAssert(!still, "stuck-session-detached")
		verifAssert(t.currentCall == nil, "dropping-the-caller-ends-the-call")
		verifAssert(!verifTimerActive(t.callEstablishmentTimer), "nothing-times-a-finished-call")
	}
	verifReach("end")
}

// ---- a whole short call seen by a slow device: invitation, then the caller hangs up (or the callee declines, or
// the call times out) before the device has read its queue. The invitation copy queued for it still carries the
// headers that were published (C02: every copy carries the published headers unchanged) - later replacement
// messages are separate messages with their own headers.
func Harness_C15_invite_copy_keeps_its_headers() {
	w := verifCallSetup()
	t := w.t
	verifAssume(w.state == 0 && globals.iceServers != nil)
	// a concrete message counter: the reference header "replace" is number formatting, not the subject
	t.lastID = 41
	w.fx.store.topics[t.name].SeqId = 41
	oldLast := t.lastID
	inv := &ClientComMessage{
		Pub:    &MsgClientPub{Id: "c1", Topic: w.b.UserId(), Head: map[string]any{"webrtc": "started", "mime": "application/x-tinode-webrtc"}, Content: verifCallContent},
		Id:     "c1", AsUser: w.a.UserId(), AuthLvl: int(auth.LevelAuth), Original: w.b.UserId(), RcptTo: t.name,
		Timestamp: types.TimeNow(), sess: w.sess[0], init: true}
	t.handleClientMsg(inv)
	verifAssert(t.currentCall != nil && t.currentCall.seq == oldLast+1, "call-started")
	switch verifChoose("ending", 3) {
	case 0:
		t.terminateCallInProgress(true)
	case 1:
		t.handleClientMsg(&ClientComMessage{Note: &MsgClientNote{Topic: w.b.UserId(), What: "call", Event: "hang-up", SeqId: oldLast + 1},
			AsUser: w.a.UserId(), AuthLvl: int(auth.LevelAuth), Original: w.b.UserId(), RcptTo: t.name, Timestamp: types.TimeNow(), sess: w.sess[0], init: true})
	case 2:
		t.handleClientMsg(&ClientComMessage{Note: &MsgClientNote{Topic: w.a.UserId(), What: "call", Event: "hang-up", SeqId: oldLast + 1},
			AsUser: w.b.UserId(), AuthLvl: int(auth.LevelAuth), Original: w.a.UserId(), RcptTo: t.name, Timestamp: types.TimeNow(), sess: w.sess[2], init: true})
	}
	verifAssert(t.currentCall == nil, "call-ended")
	// the callee's second device reads its queue only now
	var datas []*MsgServerData
	for _, m := range verifDrainSend(w.sess[3]) {
		if m != nil && m.Data != nil {
			datas = append(datas, m.Data)
		}
	}
	verifAssert(len(datas) == 2, "device-got-the-invitation-and-the-ending")
	if len(datas) == 2 {
		first, second := datas[0], datas[1]
		_, replaced := first.Head["replace"]
		verifAssert(first.SeqId == oldLast+1 && first.Head["webrtc"] == "started" && !replaced && first.Head["mime"] == "application/x-tinode-webrtc",
			"invitation-copy-carries-the-published-headers")
		verifAssert(second.SeqId == oldLast+2 && second.Head["replace"] == ":"+itoa(oldLast+1) && second.Head["webrtc"] != "started", "ending-is-a-separate-message")
	}
	verifReach("end")
}
