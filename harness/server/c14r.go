//go:build verif

package main

import (
	"encoding/json"
	"net/http"
	"time"

	"github.com/tinode/chat/server/auth"
	"github.com/tinode/chat/server/store/types"
)

// json.Marshal is reflection-driven: replaced by a tagging stub (what is serialised is not the subject here).
//
//verif:override encoding/json.Marshal
func verifJSONMarshalTagR(v any) ([]byte, error) { return []byte("J"), nil }

var _ = json.Marshal

//verif:override (*encoding/json.Encoder).Encode
func verifJSONEncodeR(e *json.Encoder, v any) error { return nil }

// ---- lock discipline of the session registry (lockset check, engine only): the registry's map, its list of
// long-polling sessions (the list head and every tracked element) and the last-activity stamps of registered
// sessions are touched by the real SessionStore operations only while SessionStore.lock is held. The engine
// checks every load and store of the guarded cells along every path of one arbitrary registry operation.
type verifLPWriter struct{ hdr http.Header }

func (w *verifLPWriter) Header() http.Header         { return w.hdr }
func (w *verifLPWriter) Write(p []byte) (int, error) { return len(p), nil }
func (w *verifLPWriter) WriteHeader(code int)        {}

func Harness_C14_session_registry_lock_discipline() {
	verifNewStore()
	verifInitGlobals()
	ss := globals.sessionStore
	var all []*Session
	mk := func(sid string, proto SessionProto, uid types.Uid) *Session {
		s := verifNewSession(sid, uid, auth.LevelAuth, 8)
		s.proto = proto
		s.lastTouched = time.Now()
		if proto == LPOLL {
			s.lpTracker = ss.lru.PushFront(s)
		}
		ss.sessCache[sid] = s
		all = append(all, s)
		return s
	}
	lp1 := mk("lp1", LPOLL, 5)
	lp2 := mk("lp2", LPOLL, 6)
	ws1 := mk("ws1", WEBSOCK, 5)
	verifGuard(ss.lru, &ss.lock)
	verifGuard(ss.sessCache, &ss.lock)
	for _, s := range all {
		if s.lpTracker != nil {
			verifGuard(s.lpTracker, &ss.lock)
		}
		verifGuard(&s.lastTouched, &ss.lock)
		// the session's table of attachments is protected by the session's own lock
		s.subs["grpAAAAAAAAAAB"] = &Subscription{done: make(chan *ClientComMessage, 4), supd: make(chan *sessionUpdate, 4)}
		verifGuard(s.subs, &s.subsLock)
	}
	switch verifChoose("operation", 12) {
	case 0:
		sid := []string{"lp1", "lp2", "ws1", "nobody"}[verifChoose("sid", 4)]
		got := ss.Get(sid)
		verifAssert((got != nil) == (sid != "nobody"), "registered-session-found")
	case 1:
		ss.Delete([]*Session{lp1, lp2, ws1}[verifChoose("which", 3)])
	case 2:
		n := 0
		ss.Range(func(sid string, s *Session) bool { n++; return true })
		verifAssert(n == 3, "range-visits-every-session")
	case 3:
		s, _ := ss.NewSession(&verifLPWriter{hdr: http.Header{}}, "lp3")
		verifAssert(s != nil && s.proto == LPOLL, "long-polling-session-created")
	case 4:
		ss.EvictUser(types.Uid(5), []string{"", "lp1"}[verifChoose("skip", 2)])
	case 5:
		ss.Shutdown()
	case 6:
		lp1.addSub("grpBBBBBBBBBBB", &Subscription{})
		verifAssert(lp1.getSub("grpBBBBBBBBBBB") != nil, "attachment-recorded")
	case 7:
		ws1.delSub("grpAAAAAAAAAAB")
		verifAssert(ws1.getSub("grpAAAAAAAAAAB") == nil, "attachment-dropped")
	case 8:
		done := ws1.getSub("grpAAAAAAAAAAB").done
		ws1.unsubAll()
		verifAssert(len(done) == 1, "terminating-session-leaves-its-topics")
	case 9:
		ws1.onBackgroundTimer()
	case 10:
		// the debugging status dump walks the registry and every session's attachments
		serveStatus(&verifLPWriter{hdr: http.Header{}}, &http.Request{Method: "GET"})
	case 11:
		verifAssert(lp2.getSub("nowhere") == nil && lp2.getSub("grpAAAAAAAAAAB") != nil, "attachment-lookup")
	}
	verifAssert(!verifLockHeld(&ss.lock), "registry-lock-released")
	// integrity: the list holds exactly the registered long-polling sessions
	lp := 0
	ss.lock.Lock()
	for _, s := range ss.sessCache {
		if s.proto == LPOLL {
			lp++
		}
	}
	verifAssert(ss.lru.Len() == lp, "list-tracks-exactly-the-registered-long-polling-sessions")
	ss.lock.Unlock()
	verifReach("end")
}
