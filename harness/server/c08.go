//go:build verif

package main

import (
	"github.com/tinode/chat/server/auth"
	"github.com/tinode/chat/server/store/types"
)

// C08 — the live topic and the stored topic never diverge: after one arbitrary request, with a
// single store fault at any position, (a) an acknowledged change is in the store, (b) a refused or
// failed request changed neither store nor cache, (c) a topic reloaded from the store with the real
// loader equals the live one on every field clients can query.

type verifTopicImage struct {
	owner            types.Uid
	lastID, delID    int
	accessAuth       types.AccessMode
	accessAnon       types.AccessMode
	public           any
	tags             []string
	want, given      map[types.Uid]types.AccessMode
	read, recv, del  map[types.Uid]int
	private          map[types.Uid]any
	member           map[types.Uid]bool
}

func verifImageOfTopic(t *Topic) verifTopicImage {
	im := verifTopicImage{owner: t.owner, lastID: t.lastID, delID: t.delID, accessAuth: t.accessAuth, accessAnon: t.accessAnon,
		public: t.public, tags: t.tags, want: map[types.Uid]types.AccessMode{}, given: map[types.Uid]types.AccessMode{},
		read: map[types.Uid]int{}, recv: map[types.Uid]int{}, del: map[types.Uid]int{}, private: map[types.Uid]any{}, member: map[types.Uid]bool{}}
	for u, p := range t.perUser {
		if p.deleted || p.isChan {
			continue
		}
		im.member[u] = true
		im.want[u], im.given[u] = p.modeWant, p.modeGiven
		im.read[u], im.recv[u], im.del[u] = p.readID, p.recvID, p.delID
		im.private[u] = p.private
	}
	return im
}

// verifReload loads the topic from the fake store with the real loader.
func verifReload(name string) (*Topic, error) {
	t2 := &Topic{name: name, xoriginal: name, perUser: make(map[types.Uid]perUserData), sessions: make(map[*Session]perSessionData)}
	err := initTopicGrp(t2)
	return t2, err
}

func verifTagsEq(a, b []string) bool {
	if len(a) != len(b) {
		return false
	}
	for i := range a {
		if a[i] != b[i] {
			return false
		}
	}
	return true
}

func verifAssertSameImage(live, other verifTopicImage, users []types.Uid, label string) {
	verifAssert(live.owner == other.owner, label+": owner")
	verifAssert(live.lastID == other.lastID, label+": lastID")
	verifAssert(live.delID == other.delID, label+": delID")
	verifAssert(live.accessAuth == other.accessAuth && live.accessAnon == other.accessAnon, label+": default-access")
	verifAssert(live.public == other.public, label+": public")
	verifAssert(verifTagsEq(live.tags, other.tags), label+": tags")
	for _, u := range users {
		verifAssert(live.member[u] == other.member[u], label+": membership")
		if live.member[u] && other.member[u] {
			verifAssert(live.want[u] == other.want[u] && live.given[u] == other.given[u], label+": modes")
			verifAssert(live.read[u] == other.read[u] && live.recv[u] == other.recv[u], label+": marks")
			verifAssert(live.del[u] == other.del[u], label+": delete-id")
			verifAssert(live.private[u] == other.private[u], label+": private")
		}
	}
}

const (
	verifOp8SetDesc = verifOpCount + iota
	verifOp8SetTags
	verifOp8DelMsg
	verifOp8Count
)

func harnessC08(nMembers, opFixed int, withFault bool) {
	w := verifSubSetup(nMembers)
	t := w.t
	fx := w.fx
	users := w.allUsers()
	// more state: counters, marks, tags, public — store mirrors cache
	t.lastID = verifSeq("lastID")
	t.delID = verifSeq("delID")
	verifAssume(t.lastID >= 3)
	t.tags = []string{"alpha", "beta"}
	t.public = "public-v1"
	st := fx.store.topics[t.name]
	st.SeqId, st.DelId, st.Tags, st.Public = t.lastID, t.delID, types.StringSlice{"alpha", "beta"}, t.public
	st.Access = types.DefaultAccess{Auth: t.accessAuth, Anon: t.accessAnon}
	for _, u := range w.members {
		pud := t.perUser[u]
		pud.readID, pud.recvID, pud.delID = 1, 2, 0
		t.perUser[u] = pud
		sub := fx.store.subs[verifSubKey(t.name, u)]
		sub.ReadSeqId, sub.RecvSeqId, sub.DelId = 1, 2, 0
	}
	// sanity: the real loader reproduces the constructed live state (the fixture itself satisfies R)
	pre := verifImageOfTopic(t)
	t0, err0 := verifReload(t.name)
	verifAssert(err0 == nil, "fixture: reload works")
	verifAssertSameImage(pre, verifImageOfTopic(t0), users, "fixture-consistent")
	storeBefore := fx.snapshotStore(t.name, users)

	if withFault {
		fx.store.failAt = verifChoose("failAt", 4) - 1
	}
	op := opFixed
	if op < 0 {
		op = verifChoose("op8", verifOp8Count)
	}
	var replies []*ServerComMessage
	if op < verifOpCount {
		_, _, replies = w.step(op)
	} else {
		actor := users[verifChoose("actor", len(users))]
		w.actor = actor
		sess := w.sess[actor]
		// {get}/{set}/{del} reach an online topic only through an attached session
		verifAssume(sess.getSub(t.name) != nil)
		base := ClientComMessage{Id: "r1", AsUser: actor.UserId(), AuthLvl: int(auth.LevelAuth), Original: t.name, RcptTo: t.name,
			Timestamp: types.TimeNow(), sess: sess, init: true}
		switch op {
		case verifOp8SetDesc:
			msg := base
			d := &MsgSetDesc{}
			switch verifChoose("setPublic", 3) {
			case 1:
				d.Public = "public-v2"
			case 2:
				d.Public = nullValue // the "delete this value" marker
			}
			switch verifChoose("setPrivate", 3) {
			case 1:
				d.Private = "private-v2"
			case 2:
				d.Private = nullValue
			}
			if verifNondetBool("setDefacs") {
				d.DefaultAcs = &MsgDefaultAcsMode{Auth: "JRW", Anon: "N"}
			}
			msg.Set = &MsgClientSet{Id: "r1", Topic: t.name, MsgSetQuery: MsgSetQuery{Desc: d}}
			msg.MetaWhat = constMsgMetaDesc
			t.handleMeta(&msg)
		case verifOp8SetTags:
			msg := base
			// a tidy list, or one the server has to clean up: duplicates by case and blanks, a tag that is too short
			tagList := []string{"alpha", "gamma"}
			switch verifChoose("tagList", 3) {
			case 1:
				tagList = []string{"gamma", "Alpha", " alpha ", "x", "gamma"}
			case 2:
				tagList = []string{"beta", "beta"}
			}
			msg.Set = &MsgClientSet{Id: "r1", Topic: t.name, MsgSetQuery: MsgSetQuery{Tags: tagList}}
			msg.MetaWhat = constMsgMetaTags
			globals.maxTagCount = 8
			t.handleMeta(&msg)
		case verifOp8DelMsg:
			msg := base
			msg.Del = &MsgClientDel{Id: "r1", Topic: t.name, What: "msg", Hard: verifNondetBool("hard"),
				DelSeq: []MsgDelRange{{LowId: 1, HiId: 3}}}
			msg.MetaWhat = constMsgDelMsg
			t.handleMeta(&msg)
		}
		replies = verifDrainSend(sess)
	}
	fx.store.failAt = -1
	failed := verifIsError(replies)
	faulted := fx.store.failed

	live := verifImageOfTopic(t)
	t2, err := verifReload(t.name)
	verifAssert(err == nil, "reload-works")
	reloaded := verifImageOfTopic(t2)

	sfx := ""
	if faulted {
		sfx = "/after-a-store-fault"
		calls := fx.store.calls
		n := len(calls)
		// Known-finding classes: multi-write requests without a transaction; the second write fails after the first took effect.
		if n >= 2 && calls[n-1] == "Subs.Update!FAULT" && calls[n-2] == "Topics.Update" && op == verifOp8SetDesc {
			sfx = "/KF-setdesc-topic-row-written-then-subscription-write-fails"
		}
		if n >= 2 && calls[n-2] == "Subs.Update" && (calls[n-1] == "Subs.Update!FAULT" || calls[n-1] == "Topics.OwnerChange!FAULT") && op <= verifOpSetSelf {
			sfx = "/KF-ownership-handover-second-write-fails"
		}
		if n >= 3 && calls[n-3] == "Subs.Update" && calls[n-2] == "Subs.Update" && calls[n-1] == "Topics.OwnerChange!FAULT" && op <= verifOpSetSelf {
			sfx = "/KF-ownership-handover-second-write-fails"
		}
	}
	// Known-finding class KF-C08-1: a subscriber whose grant lacks J changes its requested mode; the change is
	// persisted and cached, and then the request is answered 403 ("banned").
	if failed && !faulted && op <= verifOpSetSelf {
		p := t.perUser[w.actor]
		if _, in := t.perUser[w.actor]; in && !p.modeGiven.IsJoiner() && p.modeWant.IsJoiner() {
			sfx = "/KF-banned-user-changes-request-and-gets-403"
		}
	}
	if failed || len(replies) == 0 {
		// refused or failed: neither the store nor what clients see has changed
		verifAssertSameImage(pre, live, users, "refused-request-leaves-live-state"+sfx)
		verifAssert(fx.storeEquals(storeBefore, t.name, users), "refused-request-leaves-the-store"+sfx)
	}
	if !faulted || !failed {
		// whatever was acknowledged (or silently done) is in the store: a reloaded topic answers like the live one
		verifAssertSameImage(live, reloaded, users, "reload-equals-live"+sfx)
	}
	verifReach("end")
}

type verifStoreImage struct {
	topic types.Topic
	subs  map[types.Uid]types.Subscription
	has   map[types.Uid]bool
	nMsgs, nDel int
}

func (fx *verifFixture) snapshotStore(name string, users []types.Uid) verifStoreImage {
	im := verifStoreImage{subs: map[types.Uid]types.Subscription{}, has: map[types.Uid]bool{}}
	im.topic = *fx.store.topics[name]
	for _, u := range users {
		if s := fx.store.subs[verifSubKey(name, u)]; s != nil {
			im.subs[u] = *s
			im.has[u] = true
		}
	}
	im.nMsgs, im.nDel = len(fx.store.msgs), len(fx.store.dellog)
	return im
}

func (fx *verifFixture) storeEquals(b verifStoreImage, name string, users []types.Uid) bool {
	t := fx.store.topics[name]
	if t == nil {
		return false
	}
	ok := t.Owner == b.topic.Owner && t.SeqId == b.topic.SeqId && t.DelId == b.topic.DelId && t.Public == b.topic.Public &&
		t.Access == b.topic.Access && verifTagsEq(t.Tags, b.topic.Tags)
	for _, u := range users {
		s := fx.store.subs[verifSubKey(name, u)]
		if (s != nil) != b.has[u] {
			return false
		}
		if s != nil {
			o := b.subs[u]
			same := s.ModeWant == o.ModeWant && s.ModeGiven == o.ModeGiven && s.ReadSeqId == o.ReadSeqId && s.RecvSeqId == o.RecvSeqId &&
				s.DelId == o.DelId && s.Private == o.Private && (s.DeletedAt == nil) == (o.DeletedAt == nil)
			ok = ok && same
		}
	}
	return ok && len(fx.store.msgs) == b.nMsgs && len(fx.store.dellog) == b.nDel
}

func Harness_C08_subs_2()        { harnessC08(2, -1, false) }
func Harness_C08_setdesc()       { harnessC08(2, verifOp8SetDesc, true) }
func Harness_C08_settags()       { harnessC08(2, verifOp8SetTags, true) }
func Harness_C08_delmsg()        { harnessC08(2, verifOp8DelMsg, true) }
// fault-free variants (cheaper): an acknowledged permission change is in the live table and in the store alike
func Harness_C08_setother() { harnessC08(2, verifOpSetOther, false) }
func Harness_C08_setself()  { harnessC08(2, verifOpSetSelf, false) }
func Harness_C08_setself_fault() { harnessC08(2, verifOpSetSelf, true) }
func Harness_C08_setother_fault() { harnessC08(2, verifOpSetOther, true) }
func Harness_C08_sub_fault()     { harnessC08(2, verifOpSub, true) }
func Harness_C08_leave_fault()   { harnessC08(2, verifOpLeaveUnsub, true) }
func Harness_C08_delsub_fault()  { harnessC08(2, verifOpDelSub, true) }

// C03 over a two-step history: a {set sub} by a member - possibly refused because a store write failed - and then
// a publish by the same member. The publish is accepted only if the member's write permission is on record (the
// stored requested and granted modes both have W): a mode change that was refused must not linger in the live
// topic and open the door.
func Harness_C03_publish_after_set_sub() {
	verifSubBits = types.ModeJoin | types.ModeWrite
	w := verifSubSetup(2)
	t, fx := w.t, w.fx
	fx.store.failAt = verifChoose("failAt", 3) - 1
	w.step(verifOpSetSelf)
	fx.store.failAt = -1
	actor := w.actor
	sess := w.sess[actor]
	verifAssume(sess.getSub(t.name) != nil)
	_, member := t.perUser[actor]
	verifAssume(member)
	verifDrainSend(sess)
	rows0 := len(fx.store.msgs)
	pub := &ClientComMessage{Id: "p1", AsUser: actor.UserId(), AuthLvl: int(auth.LevelAuth), Original: t.name, RcptTo: t.name,
		Timestamp: types.TimeNow(), sess: sess, init: true, Pub: &MsgClientPub{Id: "p1", Topic: t.name, Content: "x"}}
	t.handlePubBroadcast(pub)
	accepted := len(fx.store.msgs) > rows0
	row := fx.store.subs[verifSubKey(t.name, actor)]
	onRecord := row != nil && row.DeletedAt == nil && (row.ModeWant & row.ModeGiven).IsWriter()
	verifAssert(accepted == onRecord, "publish-accepted-iff-write-permission-is-on-record")
	verifReach("end")
}
