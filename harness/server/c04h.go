//go:build verif

package main

import (
	"github.com/tinode/chat/server/auth"
	"github.com/tinode/chat/server/store/types"
)

// C04 (read side): a history request {get data} and a deletion-log request {get del} through the real
// replyGetData / replyGetDel. The store fake implements the documented meaning of types.QueryOpt; the
// reference below is written from the *request* ([since, before), limit, requester) - so what the handler
// does in between (permission gate, option translation, topic and requester passed to the store, author and
// topic name on the copies, the count reported) is what is being decided.

const verifHistLast = 6

func verifHistorySetup(chanReader bool) (*verifFixture, *Session, types.Uid) {
	kind := verifKindGrp
	if chanReader {
		kind = verifKindChn
	}
	fx := verifNewTopic(kind, 2)
	t := fx.topic
	t.lastID = verifHistLast
	verifNotified = nil
	actor := fx.uids[1]
	other := fx.uids[0]
	for seq := 1; seq <= verifHistLast; seq++ {
		fx.store.msgs = append(fx.store.msgs, types.Message{SeqId: seq, Topic: t.name, From: other.String(), Content: seq * 10})
	}
	// messages of another topic must never show up
	fx.store.msgs = append(fx.store.msgs, types.Message{SeqId: 2, Topic: "grpOTHERTOPICx", From: other.String(), Content: -1})
	// deletion log: #1 hard-deleted for everybody, #2 soft by the requester, #3 soft by the other user
	fx.store.dellog = []types.DelMessage{
		{Topic: t.name, DelId: 1, DeletedFor: "", SeqIdRanges: []types.Range{{Low: 1}}},
		{Topic: t.name, DelId: 2, DeletedFor: actor.String(), SeqIdRanges: []types.Range{{Low: 3, Hi: 5}}},
		{Topic: t.name, DelId: 3, DeletedFor: other.String(), SeqIdRanges: []types.Range{{Low: 5, Hi: 7}}},
		{Topic: "grpOTHERTOPICx", DelId: 4, DeletedFor: "", SeqIdRanges: []types.Range{{Low: 2}}},
	}
	pud := t.perUser[actor]
	if chanReader {
		pud.isChan = true
		pud.modeWant, pud.modeGiven = types.ModeCChnReader, types.ModeCChnReader
	} else {
		pud.modeWant, pud.modeGiven = verifMode("want"), verifMode("given")
	}
	t.perUser[actor] = pud
	sess := verifNewSession("sid-a", actor, auth.LevelAuth, 64)
	fx.attach(sess, actor, chanReader)
	return fx, sess, actor
}

// what the requester may see: ids of the topic, not hard-deleted, not soft-deleted by the requester
func verifHistVisible(seq int) bool { return seq == 2 || seq == 5 || seq == 6 }

func harnessC04History(chanReader bool) {
	fx, sess, actor := verifHistorySetup(chanReader)
	t := fx.topic
	var opts *MsgGetOpts
	since, before, limit := 0, 0, 0
	if verifNondetBool("opts") {
		since, before, limit = verifNondetInt("since"), verifNondetInt("before"), verifNondetInt("limit")
		verifAssume(since >= -2 && since <= verifHistLast+2 && before >= -2 && before <= verifHistLast+3 && limit >= -1 && limit <= verifHistLast+1)
		opts = &MsgGetOpts{SinceId: since, BeforeId: before, Limit: limit}
	}
	name := t.name
	if chanReader {
		name = types.GrpToChn(t.name)
	}
	msg := &ClientComMessage{Id: "g1", AsUser: actor.UserId(), AuthLvl: int(auth.LevelAuth), Original: name, RcptTo: t.name,
		Timestamp: types.TimeNow(), sess: sess, init: true, MetaWhat: constMsgMetaData,
		Get: &MsgClientGet{Id: "g1", Topic: name, MsgGetQuery: MsgGetQuery{What: "data", Data: opts}}}
	t.handleMeta(msg)
	pud := t.perUser[actor]
	reader := (pud.modeWant & pud.modeGiven).IsReader()
	// reference: ids in [since, before) visible to the requester, the newest `limit` of them
	var want []int
	for seq := verifHistLast; seq >= 1; seq-- {
		if !verifHistVisible(seq) || (since > 0 && seq < since) || (before > 0 && seq >= before) {
			continue
		}
		if limit > 0 && len(want) >= limit {
			break
		}
		want = append(want, seq)
	}
	if !reader {
		want = nil
	}
	var got []int
	ctrls := 0
	for _, r := range verifDrainSend(sess) {
		switch {
		case r == nil:
		case r.Data != nil:
			got = append(got, r.Data.SeqId)
			verifAssert(r.Data.Content == r.Data.SeqId*10, "content-as-published")
			verifAssert(r.Data.Topic == name, "topic-name-as-the-requester-addresses-it")
			if chanReader {
				verifAssert(r.Data.From == "", "author-withheld-from-channel-readers")
			} else {
				verifAssert(r.Data.From == fx.uids[0].UserId(), "true-author")
			}
		case r.Ctrl != nil:
			ctrls++
			verifAssert(r.Ctrl.Id == "g1", "reply-echoes-id")
			if len(want) == 0 {
				verifAssert(r.Ctrl.Code == 204, "no-content-when-nothing-to-show")
			} else {
				verifAssert(r.Ctrl.Code == 208 || r.Ctrl.Code == 200, "delivered-code")
			}
		}
	}
	verifAssert(ctrls == 1, "exactly-one-final-reply")
	verifAssert(len(got) == len(want), "history-count-exact")
	for i := range got {
		if i < len(want) {
			verifAssert(got[i] == want[i], "history-is-exactly-the-visible-ids-in-range")
		}
	}
	verifReach("end")
}

func Harness_C04_history_grp() { harnessC04History(false) }
func Harness_C04_history_chn() { harnessC04History(true) }

// {get del}: the deletion log reported to a user covers exactly the ids deleted for that user.
func Harness_C04_dellog() {
	fx, sess, actor := verifHistorySetup(false)
	t := fx.topic
	var opts *MsgGetOpts
	since, before := 0, 0
	if verifNondetBool("opts") {
		since, before = verifNondetInt("since"), verifNondetInt("before")
		verifAssume(since >= -1 && since <= 5 && before >= -1 && before <= 6)
		opts = &MsgGetOpts{SinceId: since, BeforeId: before, Limit: verifChoose("limit", 2) * 8}
	}
	msg := &ClientComMessage{Id: "g1", AsUser: actor.UserId(), AuthLvl: int(auth.LevelAuth), Original: t.name, RcptTo: t.name,
		Timestamp: types.TimeNow(), sess: sess, init: true, MetaWhat: constMsgMetaDel,
		Get: &MsgClientGet{Id: "g1", Topic: t.name, MsgGetQuery: MsgGetQuery{What: "del", Del: opts}}}
	t.handleMeta(msg)
	pud := t.perUser[actor]
	reader := (pud.modeWant & pud.modeGiven).IsReader()
	// reference: transactions #1 (hard) and #2 (the requester's own soft deletion) apply to the requester
	inRange := func(id int) bool { return (since <= 0 || id >= since) && (before <= 1 || id < before) }
	var covered [verifHistLast + 2]bool
	maxID := 0
	if reader {
		if inRange(1) {
			covered[1] = true
			maxID = 1
		}
		if inRange(2) {
			covered[3], covered[4] = true, true
			maxID = 2
		}
	}
	metas := 0
	var reported [verifHistLast + 2]bool
	for _, r := range verifDrainSend(sess) {
		if r == nil {
			continue
		}
		if r.Meta != nil && r.Meta.Del != nil {
			metas++
			verifAssert(r.Meta.Id == "g1", "reply-echoes-id")
			verifAssert(r.Meta.Del.DelId == maxID, "deletion-log-carries-the-latest-applicable-transaction")
			for _, rg := range r.Meta.Del.DelSeq {
				hi := rg.HiId
				if hi == 0 {
					hi = rg.LowId + 1
				}
				for id := rg.LowId; id < hi && id >= 0 && id < len(reported); id++ {
					reported[id] = true
				}
			}
		}
		if r.Ctrl != nil {
			verifAssert(r.Ctrl.Id == "g1" && r.Ctrl.Code == 204, "no-content-reply")
			verifAssert(maxID == 0, "no-content-only-when-nothing-applies")
		}
	}
	verifAssert(metas <= 1, "at-most-one-deletion-log-answer")
	for id := range covered {
		verifAssert(reported[id] == covered[id], "deletion-log-covers-exactly-the-ids-deleted-for-the-user")
	}
	verifReach("end")
}
