//go:build verif

package main

import (
	"github.com/tinode/chat/server/auth"
	"github.com/tinode/chat/server/store"
	"github.com/tinode/chat/server/store/types"
	"github.com/tinode/chat/server/validate"
)

// C19 (term rewriting): the real rewriteTag over an arbitrary short term, with fake validators and a fake
// authenticator whose notion of "looks like" is simple and overlapping on purpose (a run of digits looks like a
// phone number and like a login): a prefixed term is kept; otherwise the e-mail or phone form wins when its
// validator indexes credentials, then the login form when logins are searchable in this query and the
// authenticator indexes them; otherwise a valid plain tag is kept and anything else is dropped.

type verifValidatorR struct{ kind string }

func (verifValidatorR) Init(jsonconf string) error { return nil }
func (verifValidatorR) IsInitialized() bool        { return true }
func (v verifValidatorR) PreCheck(cred string, params map[string]interface{}) (string, error) {
	return verifLooksLike(v.kind, cred), nil
}
func (verifValidatorR) Request(user types.Uid, cred, lang, resp string, tmpToken []byte) (bool, error) {
	return false, nil
}
func (verifValidatorR) ResetSecret(cred, scheme, lang string, tmpToken []byte, params map[string]interface{}) error {
	return nil
}
func (verifValidatorR) Check(user types.Uid, resp string) (string, error) { return "", nil }
func (verifValidatorR) Remove(user types.Uid, value string) error         { return nil }
func (verifValidatorR) Delete(user types.Uid) error                       { return nil }
func (verifValidatorR) TempAuthScheme() (string, error)                   { return "", nil }

// verifLooksLike is the fakes' recognition rule; "" = does not look like kind.
func verifLooksLike(kind, s string) string {
	if len(s) == 0 {
		return ""
	}
	digits, at, loginOK := true, 0, true
	for i := 0; i < len(s); i++ {
		c := s[i]
		if c < '0' || c > '9' {
			digits = false
		}
		if c == '@' {
			at++
		}
		if !((c >= '0' && c <= '9') || (c >= 'a' && c <= 'z')) {
			loginOK = false
		}
	}
	switch kind {
	case "tel":
		if digits {
			return "tel:+1" + s
		}
	case "email":
		if at == 1 && s[0] != '@' && s[len(s)-1] != '@' {
			return "email:" + s
		}
	case "basic":
		if loginOK {
			return "basic:" + s
		}
	}
	return ""
}

type verifAuthHandlerR struct {
	verifAuthHandler
	addToTags bool
}

func (a *verifAuthHandlerR) AsTag(token string) string {
	if !a.addToTags {
		return ""
	}
	return verifLooksLike("basic", token)
}

type verifStoreObjR struct {
	verifStoreObj
	basic *verifAuthHandlerR
}

func (s verifStoreObjR) GetAuthNames() []string { return []string{"basic"} }
func (s verifStoreObjR) GetAuthHandler(name string) auth.AuthHandler {
	if name == "basic" {
		return s.basic
	}
	return nil
}
func (s verifStoreObjR) GetValidator(name string) validate.Validator { return verifValidatorR{kind: name} }

func Harness_C19_rewrite_term() {
	verifNewStore()
	verifInitGlobals()
	telOn, emailOn, loginOn := verifNondetBool("telIndexed"), verifNondetBool("emailIndexed"), verifNondetBool("loginIndexed")
	globals.validators = map[string]credValidator{
		"email": {addToTags: emailOn},
		"tel":   {addToTags: telOn},
	}
	store.Store = verifStoreObjR{basic: &verifAuthHandlerR{verifAuthHandler: verifAuthHandler{name: "basic"}, addToTags: loginOn}}
	withLogin := verifNondetBool("withLogin")
	term := verifNondetString("term", 1, 4, "a1@:! ")
	got := rewriteTag(term, "US", withLogin)

	want := ""
	tel, email, login := verifLooksLike("tel", term), verifLooksLike("email", term), verifLooksLike("basic", term)
	switch {
	case prefixedTagRegexp.MatchString(term):
		want = term
	case emailOn && email != "":
		want = email
	case telOn && tel != "":
		want = tel
	case withLogin && loginOn && login != "":
		want = login
	case tagRegexp.MatchString(term):
		want = term
	}
	verifAssert(got == want, "term-rewritten-to-its-prefixed-form")
	if telOn && tel != "" && !prefixedTagRegexp.MatchString(term) {
		verifAssert(got == tel, "phone-number-rewritten-to-the-tel-form")
	}
	if !withLogin {
		verifAssert(len(got) < 6 || got[:6] != "basic:", "no-login-form-when-logins-are-not-searchable")
	}
	verifReach("end")
}

// Reserved tags over a sequence: a validated credential's tag is removed together with the credential ({del cred}
// on 'me'); afterwards the 'me' topic works from the same tag list as the store, so a {set tags} that lists the
// removed tag again is judged against the truth - it cannot smuggle the reserved tag back.
func Harness_C19_del_cred_then_set_tags() {
	verifNewStore()
	verifInitGlobals()
	u := types.Uid(5)
	me := verifMeTopicR(u)
	me.tags = []string{"email:a@b.c", "plain"}
	verifUserTags = []string{"email:a@b.c", "plain"}
	verifStore.users[u] = &types.User{State: types.StateOK, Tags: types.StringSlice{"email:a@b.c", "plain"}}
	globals.validators = map[string]credValidator{"email": {addToTags: true}}
	globals.immutableTagNS = map[string]bool{"email": true}
	globals.maxTagCount = 8
	store.Store = verifStoreObjR{basic: &verifAuthHandlerR{verifAuthHandler: verifAuthHandler{name: "basic"}}}
	s := verifNewSession("sid-a", u, auth.LevelAuth, 16)
	me.sessions[s] = perSessionData{uid: u}
	del := &ClientComMessage{Id: "d1", AsUser: u.UserId(), AuthLvl: int(auth.LevelAuth), Original: "me", RcptTo: me.name, Timestamp: types.TimeNow(),
		sess: s, init: true, Del: &MsgClientDel{Id: "d1", Topic: "me", What: "cred", Cred: &MsgCredClient{Method: "email", Value: "a@b.c"}}}
	err := me.replyDelCred(s, u, auth.LevelAuth, del)
	verifAssert(err == nil, "credential-removed")
	verifAssert(verifTagsEqR(me.tags, verifUserTags), "cached-tags-equal-the-stored-tags-after-a-credential-is-removed")
	for _, tg := range me.tags {
		verifAssert(tg != "email:a@b.c", "removed-credentials-tag-is-gone")
	}
	verifDrainSend(s)
	// the client now tries to keep the old reserved tag while changing an ordinary one
	set := &ClientComMessage{Id: "t1", AsUser: u.UserId(), AuthLvl: int(auth.LevelAuth), Original: "me", RcptTo: me.name, Timestamp: types.TimeNow(),
		sess: s, init: true, MetaWhat: constMsgMetaTags, Set: &MsgClientSet{Id: "t1", Topic: "me", MsgSetQuery: MsgSetQuery{Tags: []string{"email:a@b.c", "other"}}}}
	me.replySetTags(s, u, set)
	code := 0
	for _, r := range verifDrainSend(s) {
		if r != nil && r.Ctrl != nil && r.Ctrl.Id == "t1" {
			code = r.Ctrl.Code
		}
	}
	verifAssert(code >= 400, "reserved-tag-cannot-be-added-back-by-the-client")
	for _, tg := range me.tags {
		verifAssert(tg != "email:a@b.c", "reserved-tag-not-in-the-live-list")
	}
	verifReach("end")
}

func verifMeTopicR(u types.Uid) *Topic {
	return &Topic{name: u.UserId(), xoriginal: "me", cat: types.TopicCatMe, status: topicStatusLoaded,
		perUser:  map[types.Uid]perUserData{u: {modeWant: types.ModeCSelf, modeGiven: types.ModeCSelf}},
		perSubs:  map[string]perSubsData{},
		sessions: map[*Session]perSessionData{}}
}

func verifTagsEqR(a, b []string) bool {
	if len(a) != len(b) {
		return false
	}
	for i := range a {
		if a[i] != b[i] {
			return false
		}
	}
	return true
}
