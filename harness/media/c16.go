//go:build verif

package media

import (
	"regexp"
	"strings"

	"github.com/tinode/chat/server/store/types"
)

// C16 (URL -> file id slice): no URL shape names an upload outside the serve directory.

func verifNameChar(c byte) bool {
	return c == '-' || c == '_' || ('A' <= c && c <= 'Z') || ('a' <= c && c <= 'z') || ('0' <= c && c <= '9')
}

// Stand-in for fileNamePattern.FindString (`^[-_A-Za-z0-9]+`): the natively executed regexp cannot
// take symbolic input.
//
//verif:override (*regexp.Regexp).FindString
func verifFindString(re *regexp.Regexp, s string) string {
	n := 0
	for n < len(s) && verifNameChar(s[n]) {
		n++
	}
	return s[:n]
}

const verifServe = "/v0/file/s/"

func harnessC16Url(prefixKind int) {
	id := types.Uid(verifNondetU64("id"))
	verifAssume(id != 0)
	name := id.String()
	var pre string
	switch prefixKind {
	case 0:
		pre = verifNondetString("dir", 0, 4, "/.a")
	case 1:
		pre = verifServe + verifNondetString("sub", 0, 3, "/.a")
	case 2:
		pre = verifNondetString("dir", 0, 3, "/.") + "v0/file/s/"
	}
	suf := verifNondetString("suffix", 0, 3, "./a?-")
	url := pre + name + suf
	got := GetIdFromUrl(url, verifServe)
	if got != 0 {
		// the lexically normalised URL has no directory or exactly the serve directory
		segs := strings.Split(url, "/")
		abs := strings.HasPrefix(url, "/")
		escaped := false
		var stack []string
		for _, sg := range segs {
			switch sg {
			case "", ".":
			case "..":
				if len(stack) > 0 {
					stack = stack[:len(stack)-1]
				} else if !abs {
					escaped = true
				}
			default:
				stack = append(stack, sg)
			}
		}
		verifAssert(len(stack) > 0 && !escaped, "normalised-url-names-something-inside")
		last := ""
		dir := ""
		if len(stack) > 0 {
			last = stack[len(stack)-1]
			dir = strings.Join(stack[:len(stack)-1], "/")
		}
		inServe := abs && dir == "v0/file/s"
		noDir := !abs && dir == ""
		verifAssert(inServe || noDir, "id-only-from-the-serve-directory-or-a-bare-name")
		// the id is decoded from the leading name characters of the last element only
		verifAssert(got == types.ParseUid(verifFindString(nil, last)), "id-is-the-last-elements-name")
	}
	verifReach("end")
}

func Harness_C16_url_anydir()   { harnessC16Url(0) }
func Harness_C16_url_serve()    { harnessC16Url(1) }
func Harness_C16_url_relserve() { harnessC16Url(2) }
