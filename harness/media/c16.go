//go:build verif

package media

import (
	"strings"

	"github.com/tinode/chat/server/store/types"
)

// C16 (URL -> file id slice): no URL shape names an upload outside the serve directory.

func verifNameChar(c byte) bool {
	return c == '-' || c == '_' || ('A' <= c && c <= 'Z') || ('a' <= c && c <= 'z') || ('0' <= c && c <= '9')
}

// Reference for the file-name rule of the property (file ids are base64url text: letters, digits, '-', '_'):
// the leading name characters of a path element.
func verifFindString(_ any, s string) string {
	n := 0
	for n < len(s) && verifNameChar(s[n]) {
		n++
	}
	return s[:n]
}

const verifServe = "/v0/file/s/"

func harnessC16Url(prefixKind int) {
	id := types.Uid(verifNondetU64("id"))
	verifAssume(id != 0)
	name := id.String()
	var pre string
	switch prefixKind {
	case 0:
		pre = verifNondetString("dir", 0, 4, "/.a")
	case 1:
		pre = verifServe + verifNondetString("sub", 0, 3, "/.a")
	case 2:
		pre = verifNondetString("dir", 0, 3, "/.") + "v0/file/s/"
	}
	suf := verifNondetString("suffix", 0, 3, "./a?-")
	url := pre + name + suf
	got := GetIdFromUrl(url, verifServe)
	if got != 0 {
		// the lexically normalised URL has no directory or exactly the serve directory
		segs := strings.Split(url, "/")
		abs := strings.HasPrefix(url, "/")
		escaped := false
		var stack []string
		for _, sg := range segs {
			switch sg {
			case "", ".":
			case "..":
				if len(stack) > 0 {
					stack = stack[:len(stack)-1]
				} else if !abs {
					escaped = true
				}
			default:
				stack = append(stack, sg)
			}
		}
		verifAssert(len(stack) > 0 && !escaped, "normalised-url-names-something-inside")
		last := ""
		dir := ""
		if len(stack) > 0 {
			last = stack[len(stack)-1]
			dir = strings.Join(stack[:len(stack)-1], "/")
		}
		inServe := abs && dir == "v0/file/s"
		noDir := !abs && dir == ""
		verifAssert(inServe || noDir, "id-only-from-the-serve-directory-or-a-bare-name")
		// the id is decoded from the leading name characters of the last element only
		verifAssert(got == types.ParseUid(verifFindString(nil, last)), "id-is-the-last-elements-name")
	}
	verifReach("end")
}

func Harness_C16_url_anydir()   { harnessC16Url(0) }
func Harness_C16_url_serve()    { harnessC16Url(1) }
func Harness_C16_url_relserve() { harnessC16Url(2) }

// The URL an upload is given (serve path + canonical id text + optional extension) names exactly that upload.
func Harness_C16_url_canonical() {
	id := types.Uid(verifNondetU64("id"))
	verifAssume(id != 0)
	ext := []string{"", ".jpg", ".a-b", ".tar.gz"}[verifChoose("ext", 4)]
	verifAssert(GetIdFromUrl(verifServe+id.String()+ext, verifServe) == id, "upload-url-names-its-upload")
	verifAssert(GetIdFromUrl(id.String()+ext, verifServe) == id, "bare-name-names-its-upload")
	verifReach("end")
}
