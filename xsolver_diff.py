#!/usr/bin/env python3
"""Cross-solver diff of the SMT queries of one check.

usage: xsolver_diff.py <Cxx> [quick|thorough] [max_files]
Runs ./check with GOSYM_LOG so that every worker's solver session (declarations, push/pop, check-sat) is
logged verbatim, then replays each logged session through z3 4.8.12 (`z3 -in`) and cvc5 (`--incremental`) and
compares the verdict sequences with the verdicts of the exploration solver (z3-new, re-run on the same log).
'unknown' in any solver is ignored; a sat/unsat disagreement is printed and makes the exit status 1.
"""
import os, subprocess, sys, tempfile, shutil, glob, re
V = os.path.dirname(os.path.abspath(__file__))
prop = sys.argv[1]
tier = sys.argv[2] if len(sys.argv) > 2 else "quick"
maxf = int(sys.argv[3]) if len(sys.argv) > 3 else 12
d = tempfile.mkdtemp(prefix="gosym-xs-")
try:
    env = dict(os.environ, GOSYM_LOG=d)
    subprocess.run([os.path.join(V, "check"), prop, tier], env=env, stdout=subprocess.DEVNULL, stderr=subprocess.DEVNULL)
    files = sorted(glob.glob(os.path.join(d, "solver-*.smt2")), key=os.path.getsize, reverse=True)[:maxf]
    def verdicts(cmd, f):
        try:
            out = subprocess.run(cmd, stdin=open(f), capture_output=True, text=True, timeout=1800).stdout
        except subprocess.TimeoutExpired:
            return None
        return [l.strip() for l in out.splitlines() if l.strip() in ("sat", "unsat", "unknown", "timeout")]
    bad = 0
    tot = 0
    for f in files:
        txt = open(f).read()
        # get-value lines depend on the previous verdict being sat in every solver: drop them
        txt = re.sub(r"\(get-value[^\n]*\n", "", txt)
        g = f + ".nogv"
        open(g, "w").write("(set-logic ALL)\n" + txt)
        ref = verdicts(["z3-new", "-in", "-smt2", "-t:20000"], f + ".nogv")
        res = {"z3-4.8.12": verdicts(["z3", "-in", "-smt2", "-t:20000"], g),
               "cvc5": verdicts(["cvc5", "--incremental", "--lang=smt2", "--tlimit-per=20000"], g)}
        for name, vs in res.items():
            if vs is None or ref is None:
                print("%s %s: timeout replaying the session" % (os.path.basename(f), name)); continue
            if len(vs) != len(ref):
                print("%s %s: %d verdicts vs %d (session aborted?)" % (os.path.basename(f), name, len(vs), len(ref)))
            n = min(len(vs), len(ref))
            dis = [i for i in range(n) if {vs[i], ref[i]} == {"sat", "unsat"}]
            unk = sum(1 for i in range(n) if "unknown" in (vs[i], ref[i]) or "timeout" in (vs[i], ref[i]))
            tot += n
            bad += len(dis)
            print("%s %s: %d queries compared, %d unknown ignored, %d DISAGREE %s" % (os.path.basename(f), name, n, unk, len(dis), dis[:5]))
    print("xsolver %s %s: %d query verdicts compared, %d disagreements" % (prop, tier, tot, bad))
    sys.exit(1 if bad else 0)
finally:
    shutil.rmtree(d, ignore_errors=True)
